//! C18 — ZKIR: off-circuit evaluation and the compiled circuit agree on every program.
//!
//! Program enumeration with a differential oracle. The space is described in `gen_*` below; the
//! two sides are `ZkirRelation::public_inputs` (off-circuit) and the real `MidnightCircuit` of
//! the relation run through `MockProver` (in-circuit). See `judge` for the oracle.

mod env;
mod oracle;
mod prog;

use std::{
    collections::{BTreeMap, HashMap, HashSet},
    sync::Mutex,
};

use env::*;
use midnight_proofs::dev::InstanceValue;
use midnight_zk_stdlib::Relation;
use midnight_zkir::{IrType, IrValue, Operation, ZkirRelation};
use oracle::*;
use prog::*;
use serde_json::json;
use vcore::{catch, panic_site, CaseOut, Ctx, Level, Tier, Viol};

/// The case key of the replay file given on the command line, if any.
fn replay_case_key() -> Option<String> {
    let args: Vec<String> = std::env::args().collect();
    let i = args.iter().position(|a| a == "--replay")?;
    let txt = std::fs::read_to_string(args.get(i + 1)?).ok()?;
    let v: serde_json::Value = serde_json::from_str(&txt).ok()?;
    v["case_key"].as_str().map(|s| s.to_string())
}

fn trace() -> bool {
    std::env::var("VC18_TRACE").is_ok()
}

// ---------------------------------------------------------------------------------------------
// program space
// ---------------------------------------------------------------------------------------------

fn unary_ops() -> Vec<Operation> {
    use Operation::*;
    let mut v = vec![Neg, AffineCoordinates];
    for n in [0usize, 1, 12, 31, 32, 33, 64] {
        v.push(IntoBytes(n));
    }
    for t in [
        IrType::Bool,
        IrType::Bytes(4),
        IrType::Native,
        IrType::BigUint(8),
        IrType::BigUint(256),
        IrType::BigUint(560),
        IrType::JubjubPoint,
        IrType::JubjubScalar,
    ] {
        v.push(FromBytes(t));
    }
    v.extend([Sha256, Sha512, Poseidon, Publish]);
    v
}

fn binary_ops() -> Vec<Operation> {
    use Operation::*;
    let mut v = vec![AssertEqual, AssertNotEqual, IsEqual, Add, Sub, Mul];
    for n in [0u64, 1, 2, 65537] {
        v.push(ModExp(n));
    }
    v.extend([InnerProduct, Poseidon]);
    v
}

struct Space {
    progs: Vec<Prog>,
    seen: HashSet<String>,
}

impl Space {
    fn new() -> Self {
        Space { progs: vec![], seen: HashSet::new() }
    }
    fn push(&mut self, p: Option<Prog>) {
        if let Some(p) = p {
            if self.seen.insert(p.key.clone()) {
                self.progs.push(p);
            }
        }
    }
}

/// SHA circuits are the expensive ones: in the quick tier only the two shortest byte arrays.
fn sha_allowed(tier: Tier, op: &Operation, e: &Ent) -> bool {
    if tier.is_thorough() || !matches!(op, Operation::Sha256 | Operation::Sha512) {
        return true;
    }
    match e.ty() {
        Some(IrType::Bytes(n)) => n <= 32 && e.name() != "y32",
        _ => true,
    }
}

/// Depth 1: every instruction on every tuple of environment names of the right arity.
fn gen_depth1(tier: Tier, seed: u64) -> Vec<Prog> {
    let env = operand_env(tier, seed, false);
    let red = operand_env(tier, seed, true);
    let mut s = Space::new();
    for op in unary_ops() {
        for a in &env {
            if sha_allowed(tier, &op, a) {
                s.push(build(op, &[a], Tweak::None, None));
            }
        }
    }
    // quick: the valid constants take part in the unary programs only (the zero BigUint variable
    // and the malformed constant stay)
    let env2: Vec<&Ent> = env
        .iter()
        .filter(|e| tier.is_thorough() || e.is_var() || e.ty().is_none())
        .filter(|e| tier.is_thorough() || e.name() != "y33")
        .collect();
    for op in binary_ops() {
        for a in &env2 {
            for b in &env2 {
                s.push(build(op, &[a, b], Tweak::None, None));
            }
        }
    }
    // variadic operations with more inputs: 3-ary Poseidon and 4-ary InnerProduct over the
    // reduced environment (all tuples in thorough; the well-typed and the documented mismatches
    // in quick)
    let pick = |n: &str| red.iter().find(|e| e.name() == n).unwrap();
    if tier.is_thorough() {
        for a in &red {
            for b in &red {
                for c in &red {
                    s.push(build(Operation::Poseidon, &[a, b, c], Tweak::None, None));
                    for d in &red {
                        s.push(build(Operation::InnerProduct, &[a, b, c, d], Tweak::None, None));
                    }
                }
            }
        }
    } else {
        let (n, u, p, sc, b) = (pick("nm1"), pick("u64m"), pick("pg"), pick("sm1"), pick("b1"));
        s.push(build(Operation::Poseidon, &[n, n, n], Tweak::None, None));
        s.push(build(Operation::Poseidon, &[n, b, n], Tweak::None, None));
        for t in [[n, n, n, n], [u, u, u, u], [sc, sc, p, p], [n, sc, n, p], [sc, n, p, n], [sc, sc, p, n], [n, n, n, u], [p, p, sc, sc]] {
            s.push(build(Operation::InnerProduct, &t, Tweak::None, None));
        }
    }
    s.progs
}

/// Structural variants of one well-typed representative program per operation.
fn gen_variants(seed: u64) -> Vec<Prog> {
    use Operation::*;
    let vars = full_vars(seed);
    let v = |n: &str| vars.iter().find(|e| e.name() == n).unwrap();
    let reps: Vec<(Operation, Vec<&Ent>)> = vec![
        (Publish, vec![v("nm1")]),
        (AssertEqual, vec![v("u64m"), v("u64m")]),
        (AssertNotEqual, vec![v("b0"), v("b1")]),
        (IsEqual, vec![v("y1"), v("y1")]),
        (Add, vec![v("u64m"), v("u97m")]),
        (Sub, vec![v("u97m"), v("u64m")]),
        (Mul, vec![v("sm1"), v("pg")]),
        (Neg, vec![v("nm1")]),
        (ModExp(2), vec![v("u64m"), v("u97m")]),
        (InnerProduct, vec![v("n1"), v("nm1")]),
        (AffineCoordinates, vec![v("pg")]),
        (IntoBytes(12), vec![v("u64m")]),
        (FromBytes(IrType::Native), vec![v("y1")]),
        (Poseidon, vec![v("n1"), v("nm1")]),
        (Sha256, vec![v("y1")]),
        (Sha512, vec![v("y1")]),
    ];
    let mut s = Space::new();
    for (op, args) in &reps {
        s.push(build(*op, args, Tweak::None, None));
        for t in TWEAKS {
            s.push(build(*op, args, t, None));
        }
    }
    s.progs
}

fn wit(e: &Ent) -> (&'static str, IrValue) {
    match e {
        Ent::Var { name, val, .. } => (*name, val.clone()),
        _ => unreachable!(),
    }
}

/// Load / Publish programs (depth 0): every variable, multi-output loads, every pair of
/// (declared type, witness type), degenerate widths, every constant syntax class, the empty
/// program, and the parameters that cannot be compiled.
fn gen_load_publish(seed: u64) -> Vec<Prog> {
    use Operation::*;
    let vars = full_vars(seed);
    let mut out = vec![];
    // Load + Publish of every variable
    for e in &vars {
        let Ent::Var { name, ty, .. } = e else { continue };
        out.push(custom(
            &format!("Load({ty:?})[{name}]+Publish"),
            Load(*ty),
            &load_class(ty),
            vec![ins(Load(*ty), &[], &[name]), ins(Publish, &[name], &[])],
            1,
            vec![wit(e)],
            Expect::Valid,
            "base",
        ));
    }
    // multi-output loads: all variables of one declared type in a single instruction
    let mut groups: Vec<(IrType, Vec<&Ent>)> = vec![];
    for e in &vars {
        let t = e.ty().unwrap();
        match groups.iter_mut().find(|g| g.0 == t) {
            Some(g) => g.1.push(e),
            None => groups.push((t, vec![e])),
        }
    }
    for (t, es) in &groups {
        if es.len() < 2 {
            continue;
        }
        let names: Vec<&str> = es.iter().map(|e| e.name()).collect();
        let mut rev = names.clone();
        rev.reverse();
        out.push(custom(
            &format!("Load({t:?})[{}]+Publish(reversed)", names.join(",")),
            Load(*t),
            &load_class(t),
            vec![ins(Load(*t), &[], &names), ins(Publish, &rev, &[])],
            1,
            es.iter().map(|e| wit(e)).collect(),
            Expect::Valid,
            "multi-output",
        ));
    }
    // the same name loaded twice (one instruction / two instructions)
    out.push(custom(
        "Load(Bool)[b0,b0]",
        Load(IrType::Bool),
        "Bool",
        vec![ins(Load(IrType::Bool), &[], &["b0", "b0"]), ins(Publish, &["b0"], &[])],
        1,
        vec![("b0", false.into())],
        Expect::IllFormed,
        "duplicate-output-name",
    ));
    out.push(custom(
        "Load(Bool)[b0];Load(Native)[b0]",
        Load(IrType::Bool),
        "Bool",
        vec![ins(Load(IrType::Bool), &[], &["b0"]), ins(Load(IrType::Native), &[], &["b0"]), ins(Publish, &["b0"], &[])],
        1,
        vec![("b0", false.into())],
        Expect::IllFormed,
        "duplicate-output-name",
    ));
    // declared type x witness type
    let big = |x: u64| -> IrValue { num_bigint::BigUint::from(x).into() };
    let decl = [IrType::Bool, IrType::Bytes(2), IrType::Native, IrType::BigUint(8), IrType::JubjubPoint, IrType::JubjubScalar];
    let vals: Vec<(&str, IrValue)> = vec![
        ("Bool", true.into()),
        ("Bytes(2)", vec![1u8, 2].into()),
        ("Bytes(3)", vec![1u8, 2, 3].into()),
        ("Bytes(1)", vec![1u8].into()),
        ("Native", F::from(5).into()),
        ("BigUint:200", big(200)),
        ("BigUint:255", big(255)),
        ("BigUint:256", big(256)),
        ("JubjubPoint", seeded_point(seed).into()),
        ("JubjubScalar", midnight_curves::Fr::from(3).into()),
    ];
    for t in decl {
        for (vn, val) in &vals {
            let well = match (t, val) {
                (IrType::BigUint(w), IrValue::BigUint(b)) => b.bits() <= w as u64,
                _ => val_type(val) == t,
            };
            out.push(custom(
                &format!("Load({t:?})[x]<-{vn}"),
                Load(t),
                &format!("{}<-{}", load_class(&t), vn.split(':').next().unwrap()),
                vec![ins(Load(t), &[], &["x"]), ins(Publish, &["x"], &[])],
                1,
                vec![("x", val.clone())],
                if well { Expect::Valid } else { Expect::IllFormed },
                "declared-type-x-witness-type",
            ));
        }
    }
    // degenerate widths
    out.push(custom(
        "Load(BigUint(0))[x]<-0",
        Load(IrType::BigUint(0)),
        "BigUint(0)",
        vec![ins(Load(IrType::BigUint(0)), &[], &["x"]), ins(Publish, &["x"], &[])],
        1,
        vec![("x", big(0))],
        Expect::Valid,
        "degenerate-width",
    ));
    // witness missing / extra unrelated witnesses
    out.push(custom(
        "Load(Native)[x] without witness",
        Load(IrType::Native),
        "Native",
        vec![ins(Load(IrType::Native), &[], &["x"]), ins(Publish, &["x"], &[])],
        1,
        vec![("xx", F::from(1).into())],
        Expect::IllFormed,
        "witness-missing",
    ));
    // the empty program, a program without Publish
    out.push(custom("empty-program", Publish, "none", vec![], 0, vec![], Expect::Valid, "empty-program"));
    // Publish: every constant syntax class; mixed types in one Publish; the same value twice
    for c in all_consts() {
        let Ent::Const { text, val } = &c else { continue };
        out.push(custom(
            &format!("Publish[const {}]", if text.is_empty() { "<empty>" } else { text }),
            Publish,
            &format!("const:{}", val.as_ref().map(|v| ty_class(&val_type(v))).unwrap_or("malformed")),
            vec![ins(Publish, &[text], &[])],
            1,
            vec![],
            if val.is_some() { Expect::Valid } else { Expect::IllFormed },
            "publish-constant",
        ));
    }
    {
        let es: Vec<&Ent> = ["b1", "y33", "nm1", "u97m", "pg", "sm1"].iter().map(|n| vars.iter().find(|e| e.name() == *n).unwrap()).collect();
        let (mut instrs, w) = loads(&es);
        instrs.push(ins(Publish, &["b1", "y33", "nm1", "u97m", "pg", "sm1", "Native:-0x01", "nm1", "pg"], &[]));
        instrs.push(ins(Publish, &["u97m", "1"], &[]));
        out.push(custom("Publish[all six types, a constant, repeated values]", Publish, "all-types", instrs, 2, w, Expect::Valid, "mixed-publish"));
    }
    // a loaded name that looks like a constant shadows the constant on both sides
    out.push(custom(
        "Load(Native)[\"1\"]+Publish[\"1\"]",
        Load(IrType::Native),
        "Native",
        vec![ins(Load(IrType::Native), &[], &["1"]), ins(Publish, &["1"], &[])],
        1,
        vec![("1", F::from(7).into())],
        Expect::Valid,
        "name-shadows-a-constant",
    ));
    // parameters for which no circuit can be built: off-circuit side only
    for n in [1usize << 32, (1usize << 32) + 1, usize::MAX] {
        let mut p = custom(
            &format!("IntoBytes({n})[n1] off-circuit only"),
            IntoBytes(n),
            "Native:n>=2^32",
            vec![ins(Load(IrType::Native), &[], &["n1"]), ins(IntoBytes(n), &["n1"], &["o0"])],
            0,
            vec![("n1", F::from(1).into())],
            Expect::Valid,
            "huge-parameter",
        );
        p.off_only = true;
        out.push(p);
    }
    out
}

fn load_class(t: &IrType) -> String {
    match t {
        IrType::Bytes(0) => "Bytes(0)".into(),
        IrType::BigUint(0) => "BigUint(0)".into(),
        t => ty_class(t).to_string(),
    }
}

/// Depth 2: op2 applied to an output of an Ok depth-1 prefix and a name of the reduced
/// environment, in both positions, plus op2(o, o).
fn gen_depth2(tier: Tier, seed: u64, prefixes: &[(Prog, Vec<IrType>)]) -> Vec<Prog> {
    let red = operand_env(tier, seed, true);
    let mut s = Space::new();
    for (p, out_tys) in prefixes {
        let outs: Vec<(String, IrType)> = out_tys.iter().enumerate().map(|(i, t)| (format!("o{i}"), *t)).collect();
        let out_ents: Vec<Ent> = outs.iter().map(|(n, _)| Ent::Const { text: intern(n), val: None }).collect();
        for o in &out_ents {
            for op in unary_ops() {
                s.push(build(op, &[o], Tweak::None, Some((p, &outs))));
            }
            for op in binary_ops() {
                for o2 in &out_ents {
                    s.push(build(op, &[o, o2], Tweak::None, Some((p, &outs))));
                }
                for v in &red {
                    s.push(build(op, &[o, v], Tweak::None, Some((p, &outs))));
                    s.push(build(op, &[v, o], Tweak::None, Some((p, &outs))));
                }
            }
        }
    }
    s.progs
}

// ---------------------------------------------------------------------------------------------
// oracle
// ---------------------------------------------------------------------------------------------

fn detail(p: &Prog) -> serde_json::Value {
    json!({
        "program_json": to_json(&p.instrs),
        "witness": p.witness.iter().map(|(n, v)| json!({"name": n, "value": val_str(v)})).collect::<Vec<_>>(),
        "expectation": format!("{:?}", p.expect),
        "variant": p.variant,
        "class": p.class,
        "depth": p.depth,
    })
}

fn off_same(a: &Off, b: &Off) -> bool {
    match (a, b) {
        (Off::Ok(x), Off::Ok(y)) => x == y,
        (Off::Err(x), Off::Err(y)) => x == y,
        (Off::Panic(x), Off::Panic(y)) => panic_site(x) == panic_site(y),
        _ => false,
    }
}

struct Judged {
    out: CaseOut,
    /// types of the published outputs when both sides agreed on success
    ok_types: Option<Vec<IrType>>,
}

fn key3(p: &Prog, kind: &str) -> String {
    format!("{}:{}:{}", p.op, p.class, kind)
}

/// Index of the first instruction whose synthesis panics: prefixes of the program are
/// synthesised (unknown witness first, then the known one).
fn culprit(p: &Prog) -> Option<usize> {
    for known in [false, true] {
        for i in 1..=p.instrs.len() {
            let Ok(Ok(rel)) = construct(&p.instrs[..i]) else { return None };
            if synth_panics(&rel, if known { Some(&p.witness) } else { None }) {
                return Some(i - 1);
            }
        }
    }
    None
}

/// Finding key of a panic on the in-circuit side: named after the instruction that panics (a
/// program that loads a `Bytes(0)` variable panics in the `Load`, whatever the operation under
/// test is).
fn panic_key(p: &Prog, m: &str) -> String {
    if is_arch_panic(m) {
        return "used_chips:jubjub-constant-without-jubjub-load:in-circuit-panic".to_string();
    }
    let main_idx = p.instrs.len() - p.tail_publish - (!matches!(p.operation, Operation::Publish)) as usize;
    match culprit(p) {
        Some(i) if i != main_idx => match p.instrs[i].operation {
            Operation::Load(t) => format!("Load:{}:in-circuit-panic", load_class(&t)),
            Operation::Publish if i > main_idx => format!("Publish:output-of-{}:{}:in-circuit-panic", p.op, p.class),
            op => format!("{}:inside-prefix:in-circuit-panic", op_name(&op)),
        },
        _ => key3(p, "in-circuit-panic"),
    }
}

/// `read_relation`, and when it fails on the exact bytes, once more with one trailing zero byte
/// (it decodes a `usize` after the program; see the finding `roundtrip:binary:...`).
fn read_binary_lenient(b: &[u8]) -> (Result<Result<ZkirRelation, String>, String>, bool) {
    match read_binary(b) {
        Ok(Err(e)) => {
            let mut b2 = b.to_vec();
            b2.push(0);
            match read_binary(&b2) {
                Ok(Ok(r)) => (Ok(Ok(r)), true),
                _ => (Ok(Err(e)), false),
            }
        }
        r => (r, false),
    }
}

/// One program x witness through both sides.
fn judge(p: &Prog, comp: Option<&Comp>, rt_eval: bool) -> Judged {
    let mut out = CaseOut::batch();
    let mut ok_types = None;
    let d = || detail(p);
    macro_rules! done {
        () => {
            return Judged { out, ok_types }
        };
    }
    // ---- constructors
    let rel = match construct(&p.instrs) {
        Err(pm) => {
            out.eval("ctor:panic", true);
            out.viol(Viol::new(key3(p, "from_instructions-panic"), format!("ZkirRelation::from_instructions panicked: {pm}"), d()));
            done!();
        }
        Ok(Err(e)) => {
            if p.expect == Expect::BadArity {
                out.eval("ctor:err:bad-arity", true);
                if !e.contains("wrong arity") {
                    out.viol(Viol::new(key3(p, "bad-arity:unexpected-error"), format!("arity violation reported as {e}"), d()));
                }
                // the other two constructors must reject it too (error value, no panic)
                match read_json(&to_json(&p.instrs)) {
                    Ok(Err(_)) => out.eval("read:err:bad-arity", true),
                    Ok(Ok(_)) => out.viol(Viol::new(format!("{}:bad-arity:read-accepts", p.op), "ZkirRelation::read accepts an instruction of wrong arity", d())),
                    Err(pm) => out.viol(Viol::new(format!("{}:bad-arity:read-panic", p.op), format!("ZkirRelation::read panicked: {pm}"), d())),
                }
                let bytes = bincode::encode_to_vec(&p.instrs, bincode::config::standard()).expect("encode");
                match read_binary(&bytes) {
                    Ok(Err(_)) => out.eval("read_relation:err:bad-arity", true),
                    Ok(Ok(_)) => out.viol(Viol::new(format!("{}:bad-arity:read_relation-accepts", p.op), "read_relation accepts an instruction of wrong arity", d())),
                    Err(pm) => out.viol(Viol::new(format!("{}:bad-arity:read_relation-panic", p.op), format!("read_relation panicked: {pm}"), d())),
                }
            } else {
                out.eval("ctor:err:unexpected", true);
                out.viol(Viol::new(key3(p, "from_instructions-rejects-valid-arity"), format!("from_instructions: {e}"), d()));
            }
            done!();
        }
        Ok(Ok(rel)) => {
            if p.expect == Expect::BadArity {
                out.eval("ctor:ok:bad-arity", true);
                out.viol(Viol::new(format!("{}:bad-arity:from_instructions-accepts", p.op), "from_instructions accepts an instruction of wrong arity", d()));
                done!();
            }
            rel
        }
    };
    // ---- off-circuit only: the program without its trailing Publish instructions never needs
    // the in-circuit pass that `public_inputs` runs to learn the public-input types
    let n_pre = p.instrs.len() - p.tail_publish;
    let offp = if p.tail_publish == 0 {
        public_inputs(&rel, &p.witness)
    } else {
        match construct(&p.instrs[..n_pre]) {
            Ok(Ok(r)) => public_inputs(&r, &p.witness),
            Ok(Err(e)) => Off::Err(format!("prefix constructor: {e}")),
            Err(pm) => Off::Panic(pm),
        }
    };
    if p.off_only {
        out.eval(&format!("off-only:{}", offp.name()), true);
        if let Off::Panic(m) = &offp {
            out.viol(Viol::new(key3(p, "off-circuit-panic"), format!("off-circuit evaluation panicked: {m}"), d()));
        }
        done!();
    }
    let off = match (&offp, p.tail_publish) {
        (_, 0) => offp.clone(),
        (Off::Ok(_), _) => public_inputs(&rel, &p.witness),
        _ => offp.clone(),
    };
    // ---- in-circuit
    let k = comp.and_then(|c| c.k.clone()).and_then(|k| k.ok());
    let compiles = comp.map(|c| matches!(c.synth, Ok(Ok(())))).unwrap_or(false);
    let (pis, enc): (Pis, Option<Vec<F>>) = match &off {
        Off::Ok(pis) => match catch(|| ZkirRelation::format_instance(pis)) {
            Ok(Ok(v)) => (pis.clone(), Some(v)),
            Ok(Err(e)) => {
                out.viol(Viol::new(key3(p, "format_instance-rejects-public_inputs"), format!("format_instance fails on the result of public_inputs: {e:?}"), d()));
                (pis.clone(), None)
            }
            Err(pm) => {
                out.viol(Viol::new(key3(p, "format_instance-panic"), format!("format_instance panicked: {pm}"), d()));
                (pis.clone(), None)
            }
        },
        _ => (vec![], None),
    };
    let mut io = in_circuit(&rel, &p.witness, &pis, enc.as_deref(), k);
    let inc = io.inc.clone();
    if trace() {
        eprintln!(
            "TRACE {} | expect={:?} class={} | offp={} | off={} | inc={} k={}",
            p.key,
            p.expect,
            p.class,
            offp.text().chars().take(160).collect::<String>(),
            off.text().chars().take(200).collect::<String>(),
            inc.text().chars().take(200).collect::<String>(),
            io.k
        );
    }
    out.sample = Some(json!({
        "program": to_json(&p.instrs),
        "witness": p.witness.iter().map(|(n, v)| format!("{n}={}", val_str(v))).collect::<Vec<_>>(),
        "reference": format!("{:?}", p.expect),
        "off_circuit": off.text().chars().take(300).collect::<String>(),
        "in_circuit": inc.text().chars().take(300).collect::<String>(),
        "k": io.k,
        "exposed_len": io.exposed.len(),
    }));
    let ill = matches!(p.expect, Expect::IllTyped | Expect::IllFormed);
    let tag = if ill { "ill" } else { "valid" };
    out.eval(&format!("{tag}:off={}:in={}", off.name(), inc.name()), true);
    out.counter(&format!("progs:{}", p.op), 1);
    match (&offp, &off) {
        (Off::Panic(m), _) => {
            out.viol(Viol::new(
                if m.contains("zero modulus") { "ModExp:modulus=0:off-circuit-panic".to_string() } else { key3(p, "off-circuit-panic") },
                format!("off-circuit evaluation (public_inputs on the program without Publish) panicked: {m}; in-circuit: {}", inc.text()),
                d(),
            ));
        }
        (Off::Err(e), _) | (Off::Ok(_), Off::Err(e)) => {
            if ill {
                out.counter("ill-seen", 1);
            }
            match &inc {
                Inc::Sat => out.viol(Viol::new(
                    key3(p, "off-circuit-rejects-in-circuit-accepts"),
                    format!("off-circuit evaluation fails ({e}) but the circuit is satisfied by the same witness (exposed vector {:?})", io.exposed),
                    d(),
                )),
                Inc::Unsat(_) | Inc::SynthErr(_) => {
                    out.count(if ill { "agree:both-reject-ill" } else { "agree:both-reject-value-condition" }, 1);
                    out.counter(&format!("agree-err:{}", p.op), 1);
                }
                Inc::Panic(m) => {
                    if p.expect == Expect::Valid && compiles {
                        // witness generation of a documented-valid program on an out-of-domain value
                        out.count("crash-unsat", 1);
                        out.counter(&format!("crash-unsat:{}", panic_site(m)), 1);
                    } else {
                        out.viol(Viol::new(
                            panic_key(p, m),
                            format!("off-circuit returns Err({e}) but the in-circuit side panics instead of returning an error: {m}"),
                            d(),
                        ));
                    }
                }
            }
        }
        (Off::Ok(_), Off::Panic(m)) => {
            // the off-circuit pass succeeded; the panic comes from the in-circuit pass that
            // public_inputs runs to learn the types
            if is_cost_model_unwrap(m) {
                let k1 = if ill { format!("ill-typed:{}:public_inputs-panics-via-cost-model", p.op) } else { key3(p, "doc-valid:public_inputs-panics-via-cost-model") };
                out.viol(Viol::new(k1, format!("public_inputs panics (the synthesis error is unwrapped in the cost model) instead of returning the error: {m}"), d()));
                out.viol(Viol::new(
                    key3(p, "off-circuit-accepts-in-circuit-rejects"),
                    format!("off-circuit evaluation succeeds, in-circuit: {}", inc.text()),
                    d(),
                ));
            } else {
                out.viol(Viol::new(
                    panic_key(p, m),
                    format!("off-circuit evaluation succeeds; compiling the circuit panics (reached through public_inputs): {m}; MockProver run: {}", inc.text()),
                    d(),
                ));
            }
        }
        (Off::Ok(_), Off::Ok(pis)) => {
            let encv = enc.clone().unwrap_or_default();
            let exposed_known = matches!(inc, Inc::Sat | Inc::Unsat(_));
            if exposed_known && io.exposed != encv {
                // the two sides computed different public values (or a different number of them)
                out.viol(Viol::new(
                    key3(p, "exposed-vector-differs-from-encoded-public-inputs"),
                    format!(
                        "off-circuit evaluation succeeds; the circuit exposes {:?} but format_instance(public_inputs) = {:?} (MockProver with the latter as instance: {})",
                        io.exposed,
                        encv,
                        inc.text()
                    ),
                    d(),
                ));
            } else {
                match &inc {
                    Inc::Sat => {
                        out.count("agree:ok-sat", 1);
                        out.counter(&format!("ok-sat:{}", p.op), 1);
                        if ill {
                            out.viol(Viol::new(
                                key3(p, "accepted-by-both-sides-but-not-documented"),
                                format!("both sides accept (published {:?})", pis.iter().map(|x| x.1).collect::<Vec<_>>()),
                                d(),
                            ));
                        } else {
                            ok_types = Some(pis.iter().map(|x| x.1).collect());
                        }
                        // instance binding: every single-position edit must be rejected
                        if let Some(prover) = io.prover.as_mut() {
                            let empty = std::iter::empty::<usize>();
                            for pos in 0..encv.len() {
                                for (name, newv) in [("+1", InstanceValue::Assigned(encv[pos] + F::from(1))), ("padding", InstanceValue::Padding)] {
                                    if name == "padding" && encv[pos] == F::from(0) {
                                        continue;
                                    }
                                    let old = prover.instance()[1][pos].clone();
                                    prover.instance_mut()[1][pos] = newv;
                                    let ok = catch(|| prover.verify_at_rows(empty.clone(), empty.clone()).is_ok()).unwrap_or(false);
                                    prover.instance_mut()[1][pos] = old;
                                    out.eval(if ok { "instance-edit:accepted" } else { "instance-edit:rejected" }, true);
                                    if ok {
                                        out.viol(Viol::new(key3(p, "instance-not-bound"), format!("editing public input {pos} ({name}) is not rejected"), d()));
                                    }
                                }
                            }
                        }
                    }
                    Inc::Unsat(s) => out.viol(Viol::new(
                        key3(p, "honest-witness-unsatisfiable"),
                        format!("off-circuit evaluation succeeds and the circuit exposes the same public inputs, but the honest witness is rejected: {s}"),
                        d(),
                    )),
                    Inc::SynthErr(s) => out.viol(Viol::new(
                        key3(p, "off-circuit-accepts-in-circuit-rejects"),
                        format!("off-circuit evaluation succeeds, synthesis with the witness fails: {s}"),
                        d(),
                    )),
                    Inc::Panic(m) => out.viol(Viol::new(
                        panic_key(p, m),
                        format!("off-circuit evaluation succeeds, MockProver::run panics: {m}"),
                        d(),
                    )),
                }
            }
        }
    }
    // ---- outcomes of the round-tripped relations on the same witness
    if rt_eval {
        let viaj = read_json(&to_json(&p.instrs));
        let viab = write_bytes(&rel).map(|b| read_binary_lenient(&b).0);
        for (name, r) in [("json", Some(viaj)), ("binary", viab.ok())] {
            let Some(Ok(Ok(r2))) = r else {
                out.count("roundtrip-eval:unreadable", 1);
                continue; // reported by the compile group
            };
            let off2 = public_inputs(&r2, &p.witness);
            out.eval(&format!("roundtrip-eval:{name}:{}", if off_same(&off, &off2) { "same" } else { "different" }), true);
            if !off_same(&off, &off2) {
                out.viol(Viol::new(
                    format!("roundtrip:{name}:outcome-differs"),
                    format!("public_inputs of the re-read relation: {} vs original {}", off2.text(), off.text()),
                    d(),
                ));
            }
        }
    }
    Judged { out, ok_types }
}

/// Per-shape facts: compilation with unknown witness and serialisation round trips.
fn compile_case(p: &Prog) -> (CaseOut, Option<Comp>) {
    let mut out = CaseOut::batch();
    let d = || detail(p);
    let Ok(Ok(rel)) = construct(&p.instrs) else {
        out.eval("not-constructible", false);
        return (out, None);
    };
    let comp = compile(&rel);
    out.sample = Some(json!({
        "program": to_json(&p.instrs),
        "dummy_synthesize_run": format!("{:?}", comp.synth).chars().take(200).collect::<String>(),
        "min_k": format!("{:?}", comp.k).chars().take(120).collect::<String>(),
        "from_relation_min_k": format!("{:?}", comp.from_relation).chars().take(200).collect::<String>(),
    }));
    let ill = matches!(p.expect, Expect::IllTyped | Expect::IllFormed);
    match &comp.synth {
        Ok(Ok(())) => out.eval("compile:ok", true),
        Ok(Err(_)) => {
            out.eval("compile:err", true);
            if p.expect == Expect::Valid {
                out.count("compile:err:documented-valid-program", 1);
            }
        }
        Err(m) => {
            out.eval("compile:panic", true);
            out.viol(Viol::new(
                panic_key(p, m),
                format!("compiling the circuit (unknown witness, dummy_synthesize_run) panics: {m}"),
                d(),
            ));
        }
    }
    if let Some(Err(m)) = &comp.k {
        out.viol(Viol::new(key3(p, "min_k-panic"), format!("the circuit synthesises but min_k panics: {m}"), d()));
    }
    match (&comp.synth, &comp.from_relation) {
        (_, Ok(_)) => out.eval("from_relation:ok", true),
        (Ok(Err(e)), Err(m)) if is_cost_model_unwrap(m) => {
            out.eval("from_relation:panic-instead-of-error", true);
            let _ = ill;
            out.viol(Viol::new(
                "ill-typed:from_relation/min_k:panics-via-cost-model",
                format!("synthesis returns Err({e}); MidnightCircuit::from_relation / min_k (hence setup_vk) panic instead: {m}"),
                d(),
            ));
        }
        (Err(_), Err(_)) => out.eval("from_relation:panic(compile panic)", true),
        (_, Err(m)) => {
            out.eval("from_relation:panic", true);
            out.viol(Viol::new(key3(p, "from_relation-panic"), format!("MidnightCircuit::from_relation(..).min_k() panics: {m}"), d()));
        }
    }
    // ---- round trips of the program text
    let json = to_json(&p.instrs);
    match write_bytes(&rel) {
        Err(e) => out.viol(Viol::new("roundtrip:binary:write_relation-fails", e, d())),
        Ok(b0) => {
            match decode_instructions(&b0) {
                Ok(i2) if i2 == p.instrs => out.eval("binary:decodes-to-the-same-instructions", true),
                Ok(_) => out.viol(Viol::new("roundtrip:binary:instructions-changed", "write_relation bytes decode to different instructions", d())),
                Err(e) => out.viol(Viol::new("roundtrip:binary:undecodable", e, d())),
            }
            let (r, padded) = read_binary_lenient(&b0);
            if padded {
                out.viol(Viol::new(
                    "roundtrip:binary:read_relation-rejects-write_relation-output",
                    format!(
                        "read_relation fails on exactly the bytes written by write_relation ({}); it succeeds when one more byte follows (it decodes a (Program, usize) pair from the reader)",
                        read_binary(&b0).ok().and_then(|r| r.err()).unwrap_or_default()
                    ),
                    d(),
                ));
            }
            match r {
                Ok(Ok(r2)) => match write_bytes(&r2) {
                    Ok(b1) if b1 == b0 => out.eval(if padded { "binary:roundtrip-identical(one trailing byte supplied)" } else { "binary:roundtrip-identical" }, true),
                    _ => out.viol(Viol::new("roundtrip:binary:bytes-differ", "read_relation(write_relation(p)) writes different bytes", d())),
                },
                Ok(Err(e)) => out.viol(Viol::new("roundtrip:binary:read_relation-rejects", e, d())),
                Err(m) => out.viol(Viol::new("roundtrip:binary:read_relation-panic", m, d())),
            }
            match read_json(&json) {
                Ok(Ok(r2)) => match write_bytes(&r2) {
                    Ok(b1) if b1 == b0 => out.eval("json:roundtrip-identical", true),
                    _ => out.viol(Viol::new("roundtrip:json:bytes-differ", "read(json(p)) writes different bytes", d())),
                },
                Ok(Err(e)) => out.viol(Viol::new("roundtrip:json:read-rejects", e, d())),
                Err(m) => out.viol(Viol::new("roundtrip:json:read-panic", m, d())),
            }
        }
    }
    (out, Some(comp))
}

/// Runs the compile group for the new shapes of `progs` and then the programs themselves.
fn run_phase(
    cx: &mut Ctx,
    name: &str,
    progs: Vec<Prog>,
    comps: &Mutex<HashMap<String, Comp>>,
    rt_eval: bool,
) -> Vec<(Prog, Vec<IrType>)> {
    // shapes not compiled yet
    let mut shapes: Vec<(String, Prog)> = vec![];
    {
        let known = comps.lock().unwrap();
        let mut seen = HashSet::new();
        for p in &progs {
            if p.off_only {
                continue;
            }
            let s = shape(p);
            if !known.contains_key(&s) && seen.insert(s.clone()) {
                shapes.push((s, p.clone()));
            }
        }
    }
    cx.run_cases(&format!("{name}-compile"), &shapes, |p| {
        let (out, comp) = compile_case(p);
        if let Some(c) = comp {
            comps.lock().unwrap().insert(shape(p), c);
        }
        out
    });
    let snapshot: HashMap<String, Comp> = comps.lock().unwrap().clone();
    let oks: Mutex<Vec<(String, Vec<IrType>)>> = Mutex::new(vec![]);
    let cases: Vec<(String, Prog)> = progs.into_iter().map(|p| (p.key.clone(), p)).collect();
    cx.run_cases(name, &cases, |p| {
        let comp = snapshot.get(&shape(p));
        let j = judge(p, comp, rt_eval);
        if let Some(t) = j.ok_types {
            if p.variant == "base" {
                oks.lock().unwrap().push((p.key.clone(), t));
            }
        }
        j.out
    });
    let oks: BTreeMap<String, Vec<IrType>> = oks.into_inner().unwrap().into_iter().collect();
    cases.into_iter().filter_map(|(k, p)| oks.get(&k).map(|t| (p, t.clone()))).collect()
}

/// The constant syntax classes against `IrValue::try_from(&str)`.
fn check_constants(cx: &mut Ctx) {
    let cases: Vec<(String, Ent)> = all_consts().into_iter().map(|e| (format!("const[{}]", e.name()), e)).collect();
    cx.run_cases("constants", &cases, |e| {
        let Ent::Const { text, val } = e else { unreachable!() };
        let mut out = CaseOut::batch();
        let got = catch(|| IrValue::try_from(*text));
        match (&got, val) {
            (Err(m), _) => out.viol(Viol::new("constants:parse-panic", format!("IrValue::try_from({text:?}) panicked: {m}"), json!({"text": text}))),
            (Ok(Ok(v)), Some(w)) if v == w => out.eval("valid:parsed", true),
            (Ok(Err(_)), None) => out.eval("malformed:rejected", true),
            (Ok(r), _) => out.viol(Viol::new(
                "constants:parse-differs-from-documentation",
                format!("IrValue::try_from({text:?}) = {r:?}, the module documentation gives {:?}", val.as_ref().map(val_str)),
                json!({"text": text}),
            )),
        }
        out
    });
}

/// Ill-formed serialised programs: the JSON reader and the binary reader must return an error
/// value (the binary reader is only given truncations of a valid encoding here; hostile length
/// prefixes are C16's subject).
fn check_malformed_serialised(cx: &mut Ctx) {
    let jsons: Vec<&str> = vec![
        "",
        "{}",
        "[]",
        "null",
        r#"{"instructions": 5}"#,
        r#"{"instructions": [5]}"#,
        r#"{"instructions": [{}]}"#,
        r#"{"instructions": [{"op": "frobnicate"}]}"#,
        r#"{"instructions": [{"op": {"load": "Quux"}, "outputs": ["a"]}]}"#,
        r#"{"instructions": [{"op": {"load": {"Bytes": -1}}, "outputs": ["a"]}]}"#,
        r#"{"instructions": [{"op": {"load": {"Bytes": 18446744073709551616}}, "outputs": ["a"]}]}"#,
        r#"{"instructions": [{"op": {"load": {"BigUint": 4294967296}}, "outputs": ["a"]}]}"#,
        r#"{"instructions": [{"op": {"mod_exp": -1}, "inputs": ["a", "b"], "outputs": ["c"]}]}"#,
        r#"{"instructions": [{"op": "publish", "inputs": "a"}]}"#,
        r#"{"instructions": [{"op": "publish", "inputs": [1]}]}"#,
        r#"{"instructions": [{"op": "publish", "inputs": ["a"], "outputs": ["b"]}]}"#,
        r#"{"instructions": [{"op": "add", "inputs": ["a"], "outputs": ["b"]}]}"#,
        r#"{"instructions": [{"op": {"load": "Native"}}]}"#,
        r#"{"instructions": [{"op": "publish", "inputs": ["a"]}"#,
    ];
    let cases: Vec<(String, String)> = jsons.iter().enumerate().map(|(i, j)| (format!("json#{i}"), j.to_string())).collect();
    cx.run_cases("malformed-json", &cases, |j| {
        let mut out = CaseOut::batch();
        match read_json(j) {
            Ok(Err(_)) => out.eval("rejected", true),
            Ok(Ok(_)) => out.viol(Viol::new("read:malformed-json:accepted", format!("ZkirRelation::read accepts {j}"), json!({"json": j}))),
            Err(m) => out.viol(Viol::new("read:malformed-json:panic", format!("ZkirRelation::read panics on {j}: {m}"), json!({"json": j}))),
        }
        out
    });
    // every proper prefix of a valid binary encoding
    let prog = vec![
        ins(Operation::Load(IrType::BigUint(97)), &[], &["a", "b"]),
        ins(Operation::ModExp(65537), &["a", "b"], &["c"]),
        ins(Operation::IntoBytes(13), &["c"], &["d"]),
        ins(Operation::FromBytes(IrType::JubjubScalar), &["d"], &["e"]),
        ins(Operation::Publish, &["c", "Native:-0x01"], &[]),
    ];
    let bytes = bincode::encode_to_vec(&prog, bincode::config::standard()).expect("encode");
    let cases: Vec<(String, Vec<u8>)> = (0..bytes.len()).map(|n| (format!("prefix{n}"), bytes[..n].to_vec())).collect();
    cx.run_cases("truncated-binary", &cases, |b| {
        let mut out = CaseOut::batch();
        match read_binary(b) {
            Ok(Err(_)) => out.eval("rejected", true),
            Ok(Ok(_)) => out.viol(Viol::new("read_relation:truncated:accepted", format!("read_relation accepts a truncated encoding ({} bytes)", b.len()), json!({"bytes": vcore::hex(b)}))),
            Err(m) => out.viol(Viol::new("read_relation:truncated:panic", format!("read_relation panics on a truncated encoding: {m}"), json!({"bytes": vcore::hex(b)}))),
        }
        out
    });
}

fn main() {
    let mut cx = Ctx::from_args("C18", Level::Exploration);
    cx.worker_rayon_threads = Some(1);
    cx.set_rule(
        "straight-line ZKIR programs: Loads of the operands + ONE instruction of each of the 17 operations \
         (parameters IntoBytes n in {0,1,12,31,32,33,64}, ModExp n in {0,1,2,65537}, FromBytes t in {Bool, Bytes(4), \
         Native, BigUint(8|256|560), JubjubPoint, JubjubScalar}) applied to EVERY tuple of the right arity of names of \
         a typed environment (witness variables of the 6 types bound to boundary values, constants of every syntax \
         class incl. malformed ones; well- and ill-typed tuples alike) + Publish of the outputs [depth 1]; Load/Publish \
         programs (every variable, multi-output loads, declared type x witness type, degenerate widths, every \
         constant syntax class, empty program); 13 structural variants (arity +-1 on inputs/outputs, duplicate / \
         missing / shadowing names, missing / ill-typed / oversize witnesses, no / double Publish) of one program per \
         operation; depth 2 (thorough): op2 on an output of every Ok depth-1 prefix over the reduced environment, \
         combined with every reduced-environment name in both positions. Per program shape: compilation with unknown \
         witness (dummy_synthesize_run, min_k, MidnightCircuit::from_relation) and JSON / binary round trips. Per \
         program x witness: public_inputs (off-circuit) vs MidnightCircuit + MockProver with the instance set to \
         format_instance(public inputs) (in-circuit), the exposed vector read from the copy constraints of the \
         instance column, every single-position edit of the instance. evaluations = verdicts (one per program plus one \
         per instance edit and per round-trip comparison).",
    );
    cx.assume("MockProver (with the trash-argument evaluation of the C02 fix) is the satisfiability oracle for the honest witness");
    cx.assume("in-circuit runs use the pow2range table size max_bit_len = 8 (what the repository's own ZKIR tests use); the size chosen by MidnightCircuit::from_relation is exercised by the compile group only");
    cx.assume("unsatisfiability of a failing evaluation is judged for the honest witness generator (no prover deviations: those are C04-C09's subject)");
    let (tier, seed) = (cx.tier, cx.seed);
    check_constants(&mut cx);
    check_malformed_serialised(&mut cx);
    let comps: Mutex<HashMap<String, Comp>> = Mutex::new(HashMap::new());

    run_phase(&mut cx, "load-publish", gen_load_publish(seed), &comps, true);
    run_phase(&mut cx, "variants", gen_variants(seed), &comps, true);
    let d1 = gen_depth1(tier, seed);
    let n_d1 = d1.len();
    let red_names: Vec<&'static str> = operand_env(tier, seed, true).iter().map(|e| e.name()).collect();
    let over_reduced_env = |p: &Prog| {
        n_outputs(&p.operation) > 0
            && n_outputs(&p.operation) != usize::MAX
            && p.instrs[p.instrs.len() - p.tail_publish - 1].inputs.iter().all(|i| red_names.contains(&i.as_str()))
    };
    // replaying a depth-2 case needs the depth-1 results of the candidate prefixes, which the
    // runner does not execute in replay mode: evaluate them here
    let replay_prefixes: Option<Vec<(Prog, Vec<IrType>)>> = match replay_case_key() {
        Some(k) if k.starts_with("depth2") => {
            let cands: Vec<&Prog> = d1.iter().filter(|p| over_reduced_env(p)).collect();
            let res: Mutex<Vec<(usize, Vec<IrType>)>> = Mutex::new(vec![]);
            let next = std::sync::atomic::AtomicUsize::new(0);
            std::thread::scope(|sc| {
                for _ in 0..cx.workers {
                    sc.spawn(|| {
                        vcore::in_pool(1, || loop {
                            let i = next.fetch_add(1, std::sync::atomic::Ordering::SeqCst);
                            if i >= cands.len() {
                                break;
                            }
                            if let Ok(j) = catch(|| judge(cands[i], None, false)) {
                                if let Some(t) = j.ok_types {
                                    res.lock().unwrap().push((i, t));
                                }
                            }
                        })
                    });
                }
            });
            let mut r = res.into_inner().unwrap();
            r.sort_by_key(|x| x.0);
            Some(r.into_iter().map(|(i, t)| (cands[i].clone(), t)).collect())
        }
        _ => None,
    };
    let ok1 = run_phase(&mut cx, "depth1", d1, &comps, tier.is_thorough());
    let ok1 = replay_prefixes.unwrap_or(ok1);
    cx.extra("depth1_programs", json!(n_d1));
    cx.extra("depth1_ok_prefixes", json!(ok1.len()));
    if tier.is_thorough() {
        // prefixes over the reduced environment only
        let prefixes: Vec<(Prog, Vec<IrType>)> = ok1.into_iter().filter(|(p, t)| !t.is_empty() && over_reduced_env(p)).collect();
        cx.extra("depth2_prefixes", json!(prefixes.len()));
        let d2 = gen_depth2(tier, seed, &prefixes);
        cx.extra("depth2_programs", json!(d2.len()));
        run_phase(&mut cx, "depth2", d2, &comps, false);
    } else {
        cx.note("depth 2 is explored in the thorough tier only");
    }
    // ---- anti-vacuity
    for op in ALL_OPS {
        let n = cx.counter_value(&format!("ok-sat:{op}"));
        cx.require(n > 0, &format!("operation {op} never produced an (Ok, Sat) agreement"));
    }
    cx.require(cx.counter_value("ill-seen") > 50, "ill-typed / ill-formed programs must be part of the space");
    cx.require(cx.class_count("variants:ctor:err:bad-arity") > 10, "wrong-arity variants must be rejected by the constructor");
    cx.require(cx.class_count("depth1:instance-edit:rejected") > 50, "instance edits must be rejected somewhere");
    cx.finish()
}
