//! The two sides of the differential oracle and the per-shape compilation facts.

use std::collections::HashMap;

use midnight_proofs::{
    circuit::Value,
    dev::{cost_model::dummy_synthesize_run, CellValue, InstanceValue, MockProver},
    plonk::Any,
};
use midnight_zk_stdlib::{MidnightCircuit, Relation};
use midnight_zkir::{Instruction, IrType, IrValue, ZkirRelation};
use rayon::iter::ParallelIterator;
use vcore::catch;

use crate::env::{intern, F};

pub const MAX_BIT_LEN: u8 = 8;
pub const DEFAULT_K: u32 = 11;

pub type Pis = Vec<(IrValue, IrType)>;

#[derive(Clone, Debug)]
pub enum Off {
    Ok(Pis),
    Err(String),
    Panic(String),
}

impl Off {
    pub fn name(&self) -> &'static str {
        match self {
            Off::Ok(_) => "ok",
            Off::Err(_) => "err",
            Off::Panic(_) => "panic",
        }
    }
    pub fn text(&self) -> String {
        match self {
            Off::Ok(p) => format!("Ok({} values)", p.len()),
            Off::Err(e) => format!("Err({e})"),
            Off::Panic(m) => format!("Panic({m})"),
        }
    }
}

pub fn wmap(w: &[(&'static str, IrValue)]) -> HashMap<&'static str, IrValue> {
    w.iter().cloned().collect()
}

/// `ZkirRelation::from_instructions` under catch: Ok(Ok(rel)) / Ok(Err(error text)) / Err(panic).
pub fn construct(instrs: &[Instruction]) -> Result<Result<ZkirRelation, String>, String> {
    catch(|| ZkirRelation::from_instructions(instrs).map_err(|e| format!("{e:?}")))
}

/// Off-circuit side through the public entry point.
pub fn public_inputs(rel: &ZkirRelation, w: &[(&'static str, IrValue)]) -> Off {
    match catch(|| rel.public_inputs(wmap(w))) {
        Ok(Ok(p)) => Off::Ok(p),
        Ok(Err(e)) => Off::Err(format!("{e:?}")),
        Err(p) => Off::Panic(p),
    }
}

#[derive(Clone, Debug, PartialEq, Eq)]
pub enum Inc {
    Sat,
    Unsat(String),
    SynthErr(String),
    Panic(String),
}

impl Inc {
    pub fn name(&self) -> &'static str {
        match self {
            Inc::Sat => "sat",
            Inc::Unsat(_) => "unsat",
            Inc::SynthErr(_) => "synth-err",
            Inc::Panic(_) => "panic",
        }
    }
    pub fn text(&self) -> String {
        match self {
            Inc::Sat => "Sat".into(),
            Inc::Unsat(s) => format!("Unsat({s})"),
            Inc::SynthErr(s) => format!("SynthErr({s})"),
            Inc::Panic(s) => format!("Panic({s})"),
        }
    }
}

pub struct IncOut {
    pub inc: Inc,
    /// values of the cells that the circuit copy-constrains to the plain instance column, by
    /// instance row (the vector the circuit exposes)
    pub exposed: Vec<F>,
    pub prover: Option<MockProver<F>>,
    pub k: u32,
}

fn summarize(errs: &[midnight_proofs::dev::VerifyFailure]) -> String {
    let mut s: Vec<String> = errs
        .iter()
        .take(2)
        .map(|e| format!("{e:?}").split_whitespace().collect::<Vec<_>>().join(" ").chars().take(140).collect())
        .collect();
    if errs.len() > 2 {
        s.push(format!("... {} failures", errs.len()));
    }
    s.join(" | ")
}

/// Reads the exposed vector out of a synthesised MockProver: for every row of instance column 1
/// that takes part in a copy constraint, the value of an advice / fixed cell of its cycle.
pub fn exposed_vector(prover: &MockProver<F>) -> Vec<F> {
    let perm = prover.permutation();
    let cols = perm.columns().to_vec();
    let Some(ici) = cols.iter().position(|c| matches!(c.column_type(), Any::Instance) && c.index() == 1) else {
        return vec![];
    };
    let mapping: Vec<Vec<(usize, usize)>> = perm.mapping().map(|c| c.collect()).collect();
    let mut out = vec![];
    let nrows = mapping[ici].len();
    for row in 0..nrows {
        if mapping[ici][row] == (ici, row) {
            break;
        }
        let mut cur = mapping[ici][row];
        let mut val = None;
        let mut steps = 0;
        while cur != (ici, row) && steps < 100_000 {
            let col = cols[cur.0];
            match col.column_type() {
                Any::Advice(_) => {
                    if let CellValue::Assigned(v) = prover.advice()[col.index()][cur.1] {
                        val = Some(v);
                        break;
                    }
                }
                Any::Fixed => {
                    if let CellValue::Assigned(v) = prover.fixed()[col.index()][cur.1] {
                        val = Some(v);
                        break;
                    }
                }
                Any::Instance => {}
            }
            cur = mapping[cur.0][cur.1];
            steps += 1;
        }
        out.push(val.unwrap_or(F::from(0)));
    }
    out
}

/// In-circuit side: the real `MidnightCircuit` of the relation with the known witness, run
/// through MockProver. The instance is set to `instance` when given (the encoding of the
/// off-circuit result), else to the vector the circuit itself exposes.
pub fn in_circuit(
    rel: &ZkirRelation,
    w: &[(&'static str, IrValue)],
    pis: &Pis,
    instance: Option<&[F]>,
    k0: Option<u32>,
) -> IncOut {
    let mut k = k0.unwrap_or(DEFAULT_K);
    loop {
        let r = catch(|| {
            let circuit = MidnightCircuit::new(rel, Value::known(pis.clone()), Value::known(wmap(w)), Some(MAX_BIT_LEN));
            MockProver::run(k, &circuit, vec![vec![], vec![]])
        });
        let mut prover = match r {
            Err(p) => {
                // "not enough rows" style assertions of MockProver itself when k was guessed
                if k0.is_none() && k < 17 && (p.contains("minimum_rows") || p.contains("instance.len=") || p.contains("not in usable_rows")) {
                    k += 2;
                    continue;
                }
                return IncOut { inc: Inc::Panic(p), exposed: vec![], prover: None, k };
            }
            Ok(Err(e)) => {
                let s = format!("{e:?}");
                if k0.is_none() && k < 17 && s.contains("NotEnoughRows") {
                    k += 2;
                    continue;
                }
                return IncOut { inc: Inc::SynthErr(s), exposed: vec![], prover: None, k };
            }
            Ok(Ok(p)) => p,
        };
        let exposed = exposed_vector(&prover);
        let inst: Vec<F> = instance.map(|i| i.to_vec()).unwrap_or_else(|| exposed.clone());
        {
            let col = &mut prover.instance_mut()[1];
            for (i, v) in inst.iter().enumerate() {
                if i < col.len() {
                    col[i] = InstanceValue::Assigned(*v);
                }
            }
        }
        let inc = match catch(|| prover.verify()) {
            Err(p) => Inc::Panic(format!("MockProver::verify: {p}")),
            Ok(Err(errs)) => Inc::Unsat(summarize(&errs)),
            Ok(Ok(())) => Inc::Sat,
        };
        return IncOut { inc, exposed, prover: Some(prover), k };
    }
}

/// Compile-time facts of a program shape (unknown witness).
#[derive(Clone, Debug)]
pub struct Comp {
    /// `dummy_synthesize_run` of the circuit with the fixed table size: Ok / Err(text) / panic
    pub synth: Result<Result<(), String>, String>,
    /// `min_k()` of that circuit (only when `synth` is Ok)
    pub k: Option<Result<u32, String>>,
    /// the public entry `MidnightCircuit::from_relation(rel).min_k()` (what `setup_vk`, the
    /// examples and `public_inputs` go through)
    pub from_relation: Result<u32, String>,
}

pub fn compile(rel: &ZkirRelation) -> Comp {
    let synth = catch(|| {
        let c = MidnightCircuit::new(rel, Value::unknown(), Value::unknown(), Some(MAX_BIT_LEN));
        dummy_synthesize_run(&c).map_err(|e| format!("{e:?}"))
    });
    let k = match &synth {
        Ok(Ok(())) => Some(catch(|| {
            MidnightCircuit::new(rel, Value::unknown(), Value::unknown(), Some(MAX_BIT_LEN)).min_k()
        })),
        _ => None,
    };
    let from_relation = catch(|| MidnightCircuit::from_relation(rel).min_k());
    Comp { synth, k, from_relation }
}

/// `used_chips` enables the Jubjub chip only for `Load` / `FromBytes` of a Jubjub type: a program
/// whose only Jubjub values are constants panics when the chip is requested.
pub fn is_arch_panic(panic_msg: &str) -> bool {
    panic_msg.contains("ZkStdLibArch must enable")
}

/// Whether synthesising the circuit (dummy run, no table) panics.
pub fn synth_panics(rel: &ZkirRelation, w: Option<&[(&'static str, IrValue)]>) -> bool {
    catch(|| {
        let wit = match w {
            Some(w) => Value::known(wmap(w)),
            None => Value::unknown(),
        };
        let c = MidnightCircuit::new(rel, Value::unknown(), wit, Some(MAX_BIT_LEN));
        let _ = dummy_synthesize_run(&c);
    })
    .is_err()
}

pub fn is_cost_model_unwrap(panic_msg: &str) -> bool {
    panic_msg.contains("called `Result::unwrap()` on an `Err` value") && panic_msg.contains("dev/cost_model.rs")
}

// ---------------------------------------------------------------------------------------------
// serialisation round trips
// ---------------------------------------------------------------------------------------------

pub fn to_json(instrs: &[Instruction]) -> String {
    format!("{{\"instructions\":{}}}", serde_json::to_string(instrs).expect("serialise instructions"))
}

pub fn write_bytes(rel: &ZkirRelation) -> Result<Vec<u8>, String> {
    match catch(|| {
        let mut b = vec![];
        rel.write_relation(&mut b).map(|()| b).map_err(|e| e.to_string())
    }) {
        Ok(r) => r,
        Err(p) => Err(format!("panic: {p}")),
    }
}

pub fn read_json(json: &str) -> Result<Result<ZkirRelation, String>, String> {
    let s = intern(json);
    catch(|| ZkirRelation::read(s).map_err(|e| format!("{e:?}")))
}

pub fn read_binary(bytes: &[u8]) -> Result<Result<ZkirRelation, String>, String> {
    catch(|| {
        let mut r = bytes;
        ZkirRelation::read_relation(&mut r).map_err(|e| e.to_string())
    })
}

/// Decodes the instruction list out of the binary form (bincode, standard configuration; the
/// private `Program` struct has the instruction vector as its only field).
pub fn decode_instructions(bytes: &[u8]) -> Result<Vec<Instruction>, String> {
    bincode::decode_from_slice::<Vec<Instruction>, _>(bytes, bincode::config::standard())
        .map_err(|e| e.to_string())
        .and_then(|(v, n)| if n == bytes.len() { Ok(v) } else { Err(format!("{} trailing bytes", bytes.len() - n)) })
}
