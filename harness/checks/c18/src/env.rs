//! The typed environment (witness variables bound to boundary values, constants of every syntax
//! class) and the reference typing rules taken from the documentation of `Operation`.

use std::{collections::HashSet, sync::Mutex};

use ff::{Field, PrimeField};
use group::{Group, GroupEncoding};
use midnight_curves::{Fr as JubjubFr, JubjubSubgroup};
use midnight_zkir::{IrType, IrValue, Operation};
use num_bigint::BigUint;
use num_traits::{Num, One, Zero};
use vcore::Tier;

pub type F = midnight_curves::Fq;

static INTERN: Mutex<Option<HashSet<&'static str>>> = Mutex::new(None);

/// `&'static str` for a name (witness maps and `ZkirRelation::read` want static strings).
pub fn intern(s: &str) -> &'static str {
    let mut g = INTERN.lock().unwrap();
    let set = g.get_or_insert_with(HashSet::new);
    if let Some(x) = set.get(s) {
        return x;
    }
    let l: &'static str = Box::leak(s.to_string().into_boxed_str());
    set.insert(l);
    l
}

/// One name usable as an instruction input.
#[derive(Clone, Debug)]
pub enum Ent {
    /// a witness variable: must be `Load`ed with its declared type
    Var {
        name: &'static str,
        ty: IrType,
        val: IrValue,
    },
    /// a constant; `val` is what the documentation of `utils/constants.rs` says the text denotes
    /// (`None`: the text is not a valid constant)
    Const { text: &'static str, val: Option<IrValue> },
}

impl Ent {
    pub fn name(&self) -> &'static str {
        match self {
            Ent::Var { name, .. } => name,
            Ent::Const { text, .. } => text,
        }
    }
    /// reference type (declared type of a variable, type of the denoted value of a constant)
    pub fn ty(&self) -> Option<IrType> {
        match self {
            Ent::Var { ty, .. } => Some(*ty),
            Ent::Const { val, .. } => val.as_ref().map(val_type),
        }
    }
    pub fn is_var(&self) -> bool {
        matches!(self, Ent::Var { .. })
    }
}

pub fn val_type(v: &IrValue) -> IrType {
    match v {
        IrValue::Bool(_) => IrType::Bool,
        IrValue::Bytes(b) => IrType::Bytes(b.len()),
        IrValue::Native(_) => IrType::Native,
        // a constant BigUint is assigned with max(bits, 1) bits
        IrValue::BigUint(b) => IrType::BigUint((b.bits() as u32).max(1)),
        IrValue::JubjubPoint(_) => IrType::JubjubPoint,
        IrValue::JubjubScalar(_) => IrType::JubjubScalar,
    }
}

pub fn val_str(v: &IrValue) -> String {
    match v {
        IrValue::Bool(b) => format!("Bool({b})"),
        IrValue::Bytes(b) => format!("Bytes[{}](0x{})", b.len(), vcore::hex(b)),
        IrValue::Native(x) => format!("Native({x:?})"),
        IrValue::BigUint(b) => format!("BigUint(0x{})", b.to_str_radix(16)),
        IrValue::JubjubPoint(p) => format!("JubjubPoint(0x{})", vcore::hex(&p.to_bytes())),
        IrValue::JubjubScalar(s) => format!("JubjubScalar(0x{})", {
            let mut b = s.to_repr().as_ref().to_vec();
            b.reverse();
            vcore::hex(&b)
        }),
    }
}

pub fn jubjub_order() -> BigUint {
    BigUint::from_str_radix(&JubjubFr::MODULUS[2..], 16).unwrap()
}
pub fn native_modulus() -> BigUint {
    BigUint::from_str_radix(&F::MODULUS[2..], 16).unwrap()
}

fn pat(n: usize, mul: usize, add: usize) -> Vec<u8> {
    (0..n).map(|i| (i * mul + add) as u8).collect()
}

fn var(name: &str, ty: IrType, val: IrValue) -> Ent {
    Ent::Var {
        name: intern(name),
        ty,
        val,
    }
}
fn cst(text: &str, val: Option<IrValue>) -> Ent {
    Ent::Const {
        text: intern(text),
        val,
    }
}

pub fn seeded_point(seed: u64) -> JubjubSubgroup {
    let mut rng = vcore::rng_for(seed, "c18-point");
    JubjubSubgroup::random(&mut rng)
}

/// The full environment of witness variables.
pub fn full_vars(seed: u64) -> Vec<Ent> {
    let mut v = vec![
        var("b0", IrType::Bool, false.into()),
        var("b1", IrType::Bool, true.into()),
    ];
    // byte arrays: lengths 0..70; the 32-byte ones are (a) 0xff.. (>= both field moduli, not a
    // point encoding) and (b) the encoding of the generator
    v.push(var("y0", IrType::Bytes(0), vec![0u8; 0].into()));
    v.push(var("y1", IrType::Bytes(1), vec![0xffu8].into()));
    v.push(var("y31", IrType::Bytes(31), vec![0xffu8; 31].into()));
    v.push(var("y32", IrType::Bytes(32), vec![0xffu8; 32].into()));
    v.push(var(
        "y32g",
        IrType::Bytes(32),
        JubjubSubgroup::generator().to_bytes().to_vec().into(),
    ));
    // 32-byte strings that decode to points of the curve outside the prime-order subgroup: the
    // point of order two (0, -1) and generator + (0, -1); and encodings of the identity
    // (canonical; with the sign bit of x = 0 set)
    {
        use midnight_curves::{JubjubAffine, JubjubExtended};
        let mut t2 = (-midnight_curves::Fq::ONE).to_repr().as_ref().to_vec();
        t2.resize(32, 0);
        let t2: [u8; 32] = t2.try_into().unwrap();
        v.push(var("y32t", IrType::Bytes(32), t2.to_vec().into()));
        if let Some(t) = Option::<JubjubAffine>::from(JubjubAffine::from_bytes(t2)) {
            let g = JubjubAffine::from_bytes(JubjubSubgroup::generator().to_bytes()).unwrap();
            let gt = JubjubAffine::from(JubjubExtended::from(g) + JubjubExtended::from(t));
            v.push(var("y32gt", IrType::Bytes(32), gt.to_bytes().to_vec().into()));
        }
        let id = JubjubSubgroup::identity().to_bytes();
        v.push(var("y32id", IrType::Bytes(32), id.to_vec().into()));
        let mut ids = id;
        ids[31] |= 0x80;
        v.push(var("y32is", IrType::Bytes(32), ids.to_vec().into()));
    }
    v.push(var("y33", IrType::Bytes(33), pat(33, 7, 1).into()));
    v.push(var("y64", IrType::Bytes(64), vec![0xffu8; 64].into()));
    v.push(var("y70", IrType::Bytes(70), pat(70, 3, 0).into()));
    v.push(var("n0", IrType::Native, F::ZERO.into()));
    v.push(var("n1", IrType::Native, F::ONE.into()));
    v.push(var("nm1", IrType::Native, (-F::ONE).into()));
    v.push(var("n248", IrType::Native, F::from(2).pow_vartime([248u64]).into()));
    for w in [1u32, 64, 96, 97, 256] {
        v.push(var(&format!("u{w}z"), IrType::BigUint(w), BigUint::zero().into()));
        v.push(var(
            &format!("u{w}m"),
            IrType::BigUint(w),
            ((BigUint::one() << w) - 1u32).into(),
        ));
    }
    v.push(var("pi", IrType::JubjubPoint, JubjubSubgroup::identity().into()));
    v.push(var("pg", IrType::JubjubPoint, JubjubSubgroup::generator().into()));
    v.push(var("ps", IrType::JubjubPoint, seeded_point(seed).into()));
    v.push(var("s0", IrType::JubjubScalar, JubjubFr::ZERO.into()));
    v.push(var("s1", IrType::JubjubScalar, JubjubFr::ONE.into()));
    v.push(var("sm1", IrType::JubjubScalar, (-JubjubFr::ONE).into()));
    v
}

/// Constants of every syntax class of `utils/constants.rs`, with the value the module
/// documentation assigns to them (None = not a constant).
pub fn all_consts() -> Vec<Ent> {
    let big = |s: &str| -> IrValue { BigUint::from_str_radix(s, 16).unwrap().into() };
    let r = jubjub_order();
    let p = native_modulus();
    let gen_hex = vcore::hex(&JubjubSubgroup::generator().to_bytes());
    vec![
        // --- valid
        cst("0", Some(false.into())),
        cst("1", Some(true.into())),
        cst("0xff00", Some(vec![0xffu8, 0].into())),
        cst("DEADBEEF", Some(vec![0xdeu8, 0xad, 0xbe, 0xef].into())),
        cst("", Some(Vec::<u8>::new().into())),
        cst("Native:10", Some(F::from(16).into())),
        cst("Native:-0x01", Some((-F::ONE).into())),
        cst("BigUint:0x1234", Some(big("1234"))),
        cst("BigUint:0", Some(big("0"))),
        cst("Jubjub:GENERATOR", Some(JubjubSubgroup::generator().into())),
        cst("Jubjub:IDENTITY", Some(JubjubSubgroup::identity().into())),
        cst(&format!("Jubjub:0x{gen_hex}"), Some(JubjubSubgroup::generator().into())),
        cst("JubjubScalar:FF", Some(JubjubFr::from(255).into())),
        // --- malformed
        cst("2", None),                                              // one character, not a bit
        cst("0xAAA", None),                                          // odd number of digits
        cst("zz", None),                                             // not hexadecimal
        cst("Native:zz", None),
        cst(&format!("Native:{}", p.to_str_radix(16)), None),        // = modulus: not canonical
        cst(&format!("Native:00{}", "ff".repeat(32)), None),         // 33 bytes
        cst("BigUint:xyz", None),
        cst("BigUint:", None),
        cst("Jubjub:00", None),                                      // not 32 bytes
        cst(&format!("Jubjub:{}", "ff".repeat(32)), None),           // not a point
        cst(&format!("JubjubScalar:{}", r.to_str_radix(16)), None), // = group order
        cst("Foo:12", None),
        cst("Native:1:2", None),
    ]
}

/// The environment used for operand tuples. `reduced`: one variable per type (depth 2 and the
/// quick tier).
pub fn operand_env(tier: Tier, seed: u64, reduced: bool) -> Vec<Ent> {
    let vars = full_vars(seed);
    let consts = all_consts();
    let pick_v = |names: &[&str]| -> Vec<Ent> {
        names.iter().map(|n| vars.iter().find(|e| e.name() == *n).unwrap().clone()).collect()
    };
    let pick_c = |names: &[&str]| -> Vec<Ent> {
        names.iter().map(|n| consts.iter().find(|e| e.name() == *n).unwrap().clone()).collect()
    };
    if reduced {
        let mut v = pick_v(&["b1", "y32g", "nm1", "u64m", "pg", "sm1"]);
        v.extend(pick_c(&["Native:-0x01", "BigUint:0"]));
        return v;
    }
    if tier.is_thorough() {
        let mut v = vars;
        v.extend(pick_c(&[
            "1",
            "0xff00",
            "",
            "Native:-0x01",
            "BigUint:0x1234",
            "BigUint:0",
            "Jubjub:GENERATOR",
            "Jubjub:IDENTITY",
            "JubjubScalar:FF",
            "2",
            "0xAAA",
            "Native:zz",
            "Foo:12",
        ]));
        v
    } else {
        let mut v = pick_v(&["b1", "y1", "y32g", "y32t", "y32gt", "y33", "nm1", "u1m", "u64m", "u97z", "pg", "sm1"]);
        v.extend(pick_c(&["1", "Native:-0x01", "BigUint:0", "2"]));
        v
    }
}

// ---------------------------------------------------------------------------------------------
// Reference typing: what the documentation of `Operation` declares supported.
// ---------------------------------------------------------------------------------------------

pub fn op_name(op: &Operation) -> &'static str {
    use Operation::*;
    match op {
        Load(_) => "Load",
        Publish => "Publish",
        AssertEqual => "AssertEqual",
        AssertNotEqual => "AssertNotEqual",
        IsEqual => "IsEqual",
        Add => "Add",
        Sub => "Sub",
        Mul => "Mul",
        Neg => "Neg",
        ModExp(_) => "ModExp",
        InnerProduct => "InnerProduct",
        AffineCoordinates => "AffineCoordinates",
        IntoBytes(_) => "IntoBytes",
        FromBytes(_) => "FromBytes",
        Poseidon => "Poseidon",
        Sha256 => "Sha256",
        Sha512 => "Sha512",
    }
}

pub const ALL_OPS: [&str; 17] = [
    "Load",
    "Publish",
    "AssertEqual",
    "AssertNotEqual",
    "IsEqual",
    "Add",
    "Sub",
    "Mul",
    "Neg",
    "ModExp",
    "InnerProduct",
    "AffineCoordinates",
    "IntoBytes",
    "FromBytes",
    "Poseidon",
    "Sha256",
    "Sha512",
];

pub fn ty_class(t: &IrType) -> &'static str {
    match t {
        IrType::Bool => "Bool",
        IrType::Bytes(_) => "Bytes",
        IrType::Native => "Native",
        IrType::BigUint(_) => "BigUint",
        IrType::JubjubPoint => "JubjubPoint",
        IrType::JubjubScalar => "JubjubScalar",
    }
}

/// Number of outputs of an instruction with this operation (documented arity).
pub fn n_outputs(op: &Operation) -> usize {
    use Operation::*;
    match op {
        Load(_) => usize::MAX, // variadic
        Publish | AssertEqual | AssertNotEqual => 0,
        AffineCoordinates => 2,
        _ => 1,
    }
}

/// Whether the documentation of `Operation` declares `op` supported on these input types.
pub fn doc_supported(op: &Operation, tys: &[IrType]) -> bool {
    use IrType::*;
    use Operation as O;
    let same = |a: &IrType, b: &IrType| match (a, b) {
        (Bool, Bool) | (Native, Native) | (JubjubPoint, JubjubPoint) | (JubjubScalar, JubjubScalar) => true,
        (Bytes(x), Bytes(y)) => x == y,
        (BigUint(_), BigUint(_)) => true,
        _ => false,
    };
    let pair_ok = |a: &IrType, b: &IrType| {
        matches!((a, b), (Native, Native) | (BigUint(_), BigUint(_)) | (JubjubScalar, JubjubPoint))
    };
    match op {
        O::Load(_) => tys.is_empty(),
        O::Publish => !tys.is_empty(),
        O::AssertEqual | O::AssertNotEqual | O::IsEqual => {
            tys.len() == 2 && same(&tys[0], &tys[1]) && tys[0] != JubjubScalar
        }
        O::Add | O::Sub => {
            tys.len() == 2
                && matches!(
                    (&tys[0], &tys[1]),
                    (Native, Native) | (BigUint(_), BigUint(_)) | (JubjubPoint, JubjubPoint)
                )
        }
        O::Mul => tys.len() == 2 && pair_ok(&tys[0], &tys[1]),
        O::Neg => tys.len() == 1 && matches!(tys[0], Native | JubjubPoint),
        O::ModExp(_) => tys.len() == 2 && matches!((&tys[0], &tys[1]), (BigUint(_), BigUint(_))),
        O::InnerProduct => {
            let n = tys.len();
            n >= 2 && n % 2 == 0 && {
                let (v, w) = tys.split_at(n / 2);
                pair_ok(&v[0], &w[0])
                    && v.iter().all(|t| ty_class(t) == ty_class(&v[0]))
                    && w.iter().all(|t| ty_class(t) == ty_class(&w[0]))
            }
        }
        O::AffineCoordinates => tys.len() == 1 && tys[0] == JubjubPoint,
        O::IntoBytes(n) => {
            tys.len() == 1
                && match tys[0] {
                    Native | BigUint(_) => true,
                    JubjubPoint => *n == 32,
                    _ => false,
                }
        }
        O::FromBytes(t) => {
            tys.len() == 1
                && match (tys[0], t) {
                    (Bytes(_), Native) | (Bytes(_), BigUint(_)) | (Bytes(_), JubjubScalar) => true,
                    (Bytes(l), JubjubPoint) => l == 32,
                    _ => false,
                }
        }
        O::Poseidon => !tys.is_empty() && tys.iter().all(|t| *t == Native),
        O::Sha256 | O::Sha512 => tys.len() == 1 && matches!(tys[0], Bytes(_)),
    }
}
