//! The six ZKIR value types: programs `Load x..; Publish x..` through `ZkirRelation`.
//!
//! `CircuitValue::as_public_input` is not exported by the crate; it is reached through
//! `ZkirRelation::public_inputs` + `Relation::format_instance`, exactly as a user of ZKIR does.

use std::collections::HashMap;

use midnight_proofs::circuit::Value;
use midnight_zk_stdlib::{MidnightCircuit, Relation};
use midnight_zkir::{Instruction, IrType, IrValue, Operation, ZkirRelation};
use num_bigint::BigUint;
use serde_json::json;
use vcore::{catch, panic_site, CaseOut, Ctx, Viol};

use crate::{
    mock::{check_circuit, hexv, Labels, MAX_BIT_LEN},
    types::{alphabets, Ty, Val, F},
    vk_nb_public_inputs,
};

const NAMES: [&str; 8] = ["x0", "x1", "x2", "x3", "x4", "x5", "x6", "x7"];

#[derive(Clone, Debug)]
pub struct ZVal {
    pub t: IrType,
    pub v: IrValue,
    /// the same value for the std-lib encoder (a byte array is a list of bytes)
    pub std: Vec<Val>,
    pub name: String,
}

fn tname(t: IrType) -> String {
    match t {
        IrType::Bool => "Bool".into(),
        IrType::Bytes(_) => "Bytes".into(),
        IrType::Native => "Native".into(),
        IrType::BigUint(_) => "BigUint".into(),
        IrType::JubjubPoint => "JubjubPoint".into(),
        IrType::JubjubScalar => "JubjubScalar".into(),
    }
}

fn zvals(seed: u64, thorough: bool) -> Vec<ZVal> {
    let mut out = vec![];
    for a in alphabets(seed, thorough) {
        for (name, v) in &a.members {
            let (t, iv) = match v {
                Val::Bit(b) => (IrType::Bool, IrValue::Bool(*b)),
                Val::Nat(x) => (IrType::Native, IrValue::Native(*x)),
                Val::JubP(p) => (IrType::JubjubPoint, IrValue::JubjubPoint(*p)),
                Val::JubS(s) => (IrType::JubjubScalar, IrValue::JubjubScalar(*s)),
                Val::Big(x, n) => (IrType::BigUint(*n), IrValue::BigUint(x.clone())),
                _ => continue,
            };
            out.push(ZVal { t, v: iv, std: vec![v.clone()], name: format!("{}/{name}", a.ty.tag()) });
        }
    }
    for (n, pats) in [(1usize, vec![0u8, 255, 1]), (2, vec![0, 255, 0x80]), (32, vec![0, 255, 0xa5])] {
        for p in pats {
            let bytes: Vec<u8> = (0..n).map(|i| if p == 0xa5 || p == 0x80 { p.wrapping_add(i as u8) } else { p }).collect();
            out.push(ZVal { t: IrType::Bytes(n), v: IrValue::Bytes(bytes.clone()), std: bytes.iter().map(|b| Val::Byte(*b)).collect(), name: format!("Bytes{n}/{p:#x}") });
        }
    }
    out
}

/// `Load` each value (one instruction per value) and `Publish` them in the order `publish`.
fn program(vals: &[ZVal], publish: &[usize]) -> (Vec<Instruction>, HashMap<&'static str, IrValue>) {
    let mut ins = vec![];
    let mut w = HashMap::new();
    for (i, z) in vals.iter().enumerate() {
        ins.push(Instruction { operation: Operation::Load(z.t), inputs: vec![], outputs: vec![NAMES[i].to_string()] });
        w.insert(NAMES[i], z.v.clone());
    }
    ins.push(Instruction { operation: Operation::Publish, inputs: publish.iter().map(|i| NAMES[*i].to_string()).collect(), outputs: vec![] });
    (ins, w)
}

fn check_program(vals: &[ZVal], publish: &[usize], with_keys: bool, seed: u64, out: &mut CaseOut) -> Option<Vec<F>> {
    let t0 = format!("zkir:{}", tname(vals[publish[0]].t));
    let what = format!("ZKIR Load+Publish of [{}]", publish.iter().map(|i| vals[*i].name.clone()).collect::<Vec<_>>().join(", "));
    let (ins, w) = program(vals, publish);
    let rel = match catch(|| ZkirRelation::from_instructions(&ins)) {
        Ok(Ok(r)) => r,
        Ok(Err(e)) => {
            out.viol(Viol::new(format!("{t0}:publish:encoding-not-accepted"), format!("ZkirRelation::from_instructions rejects {what}: {e:?}"), json!({"case": what})));
            return None;
        }
        Err(p) => {
            out.viol(Viol::new(format!("{t0}:publish:panic"), format!("from_instructions panicked: {p}"), json!({"case": what})));
            return None;
        }
    };
    // off-circuit: values + types, then raw field elements
    let pis = match catch(|| rel.public_inputs(w.clone())) {
        Ok(Ok(p)) => p,
        Ok(Err(e)) => {
            out.eval("public_inputs:error", true);
            out.viol(Viol::new(format!("{t0}:publish:encoding-not-accepted"), format!("ZkirRelation::public_inputs fails on {what}: {e:?}"), json!({"case": what})));
            return None;
        }
        Err(p) => {
            out.eval("public_inputs:panic", true);
            out.viol(Viol::new(format!("{t0}:publish:panic"), format!("ZkirRelation::public_inputs panicked at {} on {what}: {p}", panic_site(&p)), json!({"case": what})));
            return None;
        }
    };
    let types_ok = pis.len() == publish.len() && pis.iter().zip(publish).all(|((v, t), i)| *v == vals[*i].v && *t == vals[*i].t);
    out.eval(if types_ok { "public_inputs:values-and-types-as-loaded" } else { "public_inputs:values-or-types-differ" }, true);
    if !types_ok {
        out.viol(Viol::new(
            format!("{t0}:public_inputs-differ-from-loaded-values"),
            format!("ZkirRelation::public_inputs does not return the published values with their declared types for {what}"),
            json!({"case": what, "returned": format!("{pis:?}")}),
        ));
    }
    let enc = match catch(|| <ZkirRelation as Relation>::format_instance(&pis)) {
        Ok(Ok(e)) => e,
        r => {
            out.viol(Viol::new(format!("{t0}:publish:encoding-not-accepted"), format!("format_instance fails on {what}: {r:?}"), json!({"case": what})));
            return None;
        }
    };
    // the ZKIR encoding is the std-lib encoding of the same values
    let std_enc: Vec<F> = publish.iter().flat_map(|i| vals[*i].std.iter().flat_map(|v| v.encode(None)).collect::<Vec<_>>()).collect();
    let same = enc == std_enc;
    out.eval(if same { "zkir-encoding:equals-std-encoding" } else { "zkir-encoding:differs-from-std-encoding" }, true);
    if !same {
        out.viol(Viol::new(
            format!("{t0}:encoding-differs-from-std-encoder"),
            format!("CircuitValue::as_public_input (through format_instance) differs from the Instantiable encoding for {what}"),
            json!({"case": what, "zkir": hexv(&enc), "std": hexv(&std_enc)}),
        ));
    }
    // in circuit
    let k = match catch(|| MidnightCircuit::new(&rel, Value::unknown(), Value::unknown(), Some(MAX_BIT_LEN)).min_k()) {
        Ok(k) => k,
        Err(p) => {
            out.viol(Viol::new(format!("{t0}:publish:panic"), format!("synthesis without witnesses of {what} panicked at {}: {p}", panic_site(&p)), json!({"case": what})));
            return None;
        }
    };
    let labs: Vec<(String, String)> = publish
        .iter()
        .flat_map(|i| {
            let n: usize = vals[*i].std.iter().map(|v| v.encode(None).len()).sum();
            vec![(format!("zkir:{}", tname(vals[*i].t)), "publish".to_string()); n]
        })
        .collect();
    let labs = if labs.len() == enc.len() { labs } else { vec![(t0.clone(), "publish".to_string()); enc.len()] };
    let circuit = MidnightCircuit::new(&rel, Value::known(pis.clone()), Value::known(w.clone()), Some(MAX_BIT_LEN));
    let labels = Labels { plain: &labs, committed: &[] };
    let ok = check_circuit(&circuit, k, &[], &enc, &[], &labels, &what, out);
    if ok && with_keys {
        let r = catch(|| {
            let k = MidnightCircuit::from_relation(&rel).min_k();
            let srs = vfam::api::setup(k, seed);
            midnight_zk_stdlib::setup_vk(&srs, &rel)
        });
        match r {
            Err(p) => out.viol(Viol::new(format!("setup_vk:panic:{}", panic_site(&p)), format!("setup_vk panicked for {what}: {p}"), json!({"case": what}))),
            Ok(vk) => match vk_nb_public_inputs(&vk, rel.used_chips()) {
                Err(e) => out.viol(Viol::new("nb_public_inputs:unreadable", e, json!({"case": what}))),
                Ok(got) => {
                    out.eval(if got == enc.len() { "nb_public_inputs:equal" } else { "nb_public_inputs:differs" }, true);
                    if got != enc.len() {
                        out.viol(Viol::new(
                            "nb_public_inputs:mismatch",
                            format!("MidnightVK records nb_public_inputs = {got} while format_instance of {what} has {} elements", enc.len()),
                            json!({"case": what, "recorded": got, "encoding_len": enc.len()}),
                        ));
                    }
                }
            },
        }
    }
    ok.then_some(enc)
}

pub fn run(cx: &mut Ctx) {
    let seed = cx.seed;
    let thorough = cx.tier.is_thorough();
    let all = zvals(seed, thorough);
    // ---- single values; in the quick tier the first members of every alphabet
    let mut per_alpha: HashMap<String, usize> = HashMap::new();
    let mut cases: Vec<(String, (Vec<ZVal>, Vec<usize>, bool))> = vec![];
    for z in &all {
        let a = z.name.split('/').next().unwrap().to_string();
        let c = per_alpha.entry(a).or_default();
        *c += 1;
        if thorough || *c <= 3 {
            cases.push((format!("single/{}", z.name), (vec![z.clone()], vec![0], *c == 1)));
        }
    }
    // ---- several values of mixed types in one Publish, one of them published twice
    let pickz = |prefix: &str, idx: usize| -> ZVal { all.iter().filter(|z| z.name.starts_with(prefix)).nth(idx).cloned().unwrap_or_else(|| panic!("no zkir value {prefix}")) };
    let mixed = vec![pickz("Bit/", 1), pickz("Bytes2/", 2), pickz("Nat/", 2), pickz("Big97/", 1), pickz("JubP/", 1), pickz("JubS/", 2), pickz("Big288/", 1)];
    cases.push(("mixed/all-six-types".into(), (mixed.clone(), vec![0, 1, 2, 3, 4, 5, 6], true)));
    cases.push(("mixed/reversed-with-repeat".into(), (mixed.clone(), vec![6, 5, 4, 3, 2, 1, 0, 3, 0], true)));
    cases.push(("mixed/same-value-three-times".into(), (mixed.clone(), vec![2, 2, 2], true)));
    cx.run_cases("zkir", &cases, |(vals, publish, with_keys)| {
        let mut out = CaseOut::batch();
        if let Some(enc) = check_program(vals, publish, *with_keys, seed, &mut out) {
            out.sample = Some(json!({"published": publish.iter().map(|i| vals[*i].name.clone()).collect::<Vec<_>>(), "encoding": hexv(&enc)}));
        }
        out
    });
    // ---- injectivity of the ZKIR off-circuit encoder per IR type (whole alphabet)
    let mut out = CaseOut::batch();
    let mut seen: HashMap<(String, Vec<u8>), String> = HashMap::new();
    for z in &all {
        let tkey = format!("{:?}", z.t);
        let (ins, w) = program(std::slice::from_ref(z), &[0]);
        let enc = catch(|| {
            let _rel = ZkirRelation::from_instructions(&ins).ok()?;
            // the type is the declared one: no circuit pass is needed for the encoding itself
            <ZkirRelation as Relation>::format_instance(&vec![(w["x0"].clone(), z.t)]).ok()
        });
        let Ok(Some(enc)) = enc else {
            out.viol(Viol::new(format!("zkir:{}:off-circuit:panic", tname(z.t)), format!("format_instance failed on {}", z.name), json!({"value": z.name})));
            continue;
        };
        let bytes: Vec<u8> = enc.iter().flat_map(|x| x.to_bytes_le().as_ref().to_vec()).collect();
        let id = format!("{:?}", z.v);
        match seen.insert((tkey, bytes), id.clone()) {
            Some(other) if other != id => {
                out.eval("injectivity:collision", true);
                out.viol(Viol::new(format!("zkir:{}:encoding-not-injective", tname(z.t)), format!("two distinct values of {:?} share one encoding", z.t), json!({"a": other, "b": id})));
            }
            _ => out.eval("injectivity:distinct", true),
        }
    }
    cx.record("zkir-injectivity", "all-types", out);
    let _ = (Ty::Bit, BigUint::from(0u32));
}
