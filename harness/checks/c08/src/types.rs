//! Value alphabets, the off-circuit encoder dispatch and the `Expose` relation of C08.
//!
//! `Expose` is a `Relation` over `ZkStdLib` that exposes a list of typed values, each through one
//! of the exposure paths. It is run through the real `MidnightCircuit` (MockProver, keygen,
//! prover, verifier).

use std::{cell::RefCell, collections::BTreeMap};

use ff::{Field, PrimeField};
use group::Group;
use midnight_circuits::{
    field::foreign::params::MultiEmulationParams as MEP,
    instructions::{public_input::CommittedInstanceInstructions, AssignmentInstructions, PublicInputInstructions},
    types::{
        AssignedBigUint, AssignedBit, AssignedByte, AssignedField, AssignedForeignPoint, AssignedNative, AssignedNativePoint,
        AssignedScalarOfNativeCurve, Instantiable,
    },
    CircuitField,
};
use midnight_curves::{
    k256::{Fp as KFp, Fq as KFq, K256},
    Fp as BlsFp, Fr as JFr, G1Projective, JubjubExtended as Jub, JubjubSubgroup,
};
use midnight_proofs::{
    circuit::{Layouter, Value},
    plonk::Error,
};
use midnight_zk_stdlib::{Relation, ZkStdLib, ZkStdLibArch};
use num_bigint::BigUint;
use num_traits::{One, Zero};
use rand_core::RngCore;

pub type F = midnight_curves::Fq;

pub const BIG_LOG2_BASE: u32 = 96;

#[derive(Clone, Copy, Debug, PartialEq, Eq, Hash, PartialOrd, Ord)]
pub enum Path {
    /// `assign` then `constrain_as_public_input`
    Constrain,
    /// `assign_as_public_input`
    Assign,
    /// `assign_fixed` then `constrain_as_public_input` (a published constant)
    Fixed,
    /// `assign` then `constrain_as_committed_public_input` (instance column 0)
    Committed,
}

impl Path {
    pub fn name(self) -> &'static str {
        match self {
            Path::Constrain => "constrain",
            Path::Assign => "assign",
            Path::Fixed => "fixed+constrain",
            Path::Committed => "committed",
        }
    }
}

#[derive(Clone, Copy, Debug, PartialEq, Eq, Hash, PartialOrd, Ord)]
pub enum Ty {
    Bit,
    Byte,
    Nat,
    SecpS,
    SecpB,
    BlsB,
    JubP,
    JubS,
    SecpP,
    BlsP,
    /// BigUint assigned with the given `nb_bits`
    Big(u32),
    /// sum of two BigUints of the given `nb_bits` (exposed with the bound the gadget derives)
    BigSum(u32),
    /// product of two BigUints of the given `nb_bits`
    BigMul(u32),
    /// emulated field element computed by linear operations (add / sub / neg / add_constant) on
    /// assigned elements and exposed without any operation in between: its limbs are not
    /// normalised when the exposure starts
    SecpBLin,
    SecpSLin,
    BlsBLin,
}

impl Ty {
    /// type name used in finding keys (no parameters)
    pub fn name(self) -> &'static str {
        match self {
            Ty::Bit => "AssignedBit",
            Ty::Byte => "AssignedByte",
            Ty::Nat => "AssignedNative",
            Ty::SecpS => "AssignedField<secp256k1-scalar>",
            Ty::SecpB => "AssignedField<secp256k1-base>",
            Ty::BlsB => "AssignedField<bls12-381-base>",
            Ty::JubP => "AssignedNativePoint<Jubjub>",
            Ty::JubS => "AssignedScalarOfNativeCurve<Jubjub>",
            Ty::SecpP => "AssignedForeignPoint<secp256k1>",
            Ty::BlsP => "AssignedForeignPoint<bls12-381-G1>",
            Ty::Big(_) => "AssignedBigUint",
            Ty::BigSum(_) => "AssignedBigUint(sum)",
            Ty::BigMul(_) => "AssignedBigUint(product)",
            Ty::SecpBLin => "AssignedField<secp256k1-base>(linear)",
            Ty::SecpSLin => "AssignedField<secp256k1-scalar>(linear)",
            Ty::BlsBLin => "AssignedField<bls12-381-base>(linear)",
        }
    }
    pub fn tag(self) -> String {
        match self {
            Ty::Big(n) => format!("Big{n}"),
            Ty::BigSum(n) => format!("BigSum{n}"),
            Ty::BigMul(n) => format!("BigMul{n}"),
            t => format!("{t:?}"),
        }
    }
    pub fn paths(self) -> Vec<Path> {
        match self {
            Ty::Bit | Ty::Byte | Ty::Nat => vec![Path::Constrain, Path::Assign, Path::Fixed, Path::Committed],
            Ty::Big(_) => vec![Path::Constrain, Path::Fixed],
            Ty::BigSum(_) | Ty::BigMul(_) | Ty::SecpBLin | Ty::SecpSLin | Ty::BlsBLin => vec![Path::Constrain],
            _ => vec![Path::Constrain, Path::Assign, Path::Fixed],
        }
    }
}

#[derive(Clone, Debug)]
pub enum Val {
    Bit(bool),
    Byte(u8),
    Nat(F),
    SecpS(KFq),
    SecpB(KFp),
    BlsB(BlsFp),
    JubP(JubjubSubgroup),
    JubS(JFr),
    SecpP(K256),
    BlsP(G1Projective),
    Big(BigUint, u32),
    BigSum(BigUint, BigUint, u32),
    BigMul(BigUint, BigUint, u32),
    /// (a, b, op): 0 = a + b, 1 = a - b, 2 = -a, 3 = (a + b) + b, 4 = a + 1 (add_constant)
    SecpBLin(KFp, KFp, u8),
    SecpSLin(KFq, KFq, u8),
    BlsBLin(BlsFp, BlsFp, u8),
}

/// value of a linear combination case
pub fn lin_value<K: CircuitField>(a: &K, b: &K, op: u8) -> K {
    match op {
        0 => *a + *b,
        1 => *a - *b,
        2 => -*a,
        3 => *a + *b + *b,
        _ => *a + K::ONE,
    }
}

thread_local! {
    /// slot -> values of the cells returned by the in-circuit `as_public_input`
    pub static INCIRCUIT: RefCell<BTreeMap<usize, Vec<Option<F>>>> = const { RefCell::new(BTreeMap::new()) };
    /// slot -> the `nb_bits` bound the BigUint gadget derives for a computed BigUint
    pub static DERIVED_NB: RefCell<BTreeMap<usize, u32>> = const { RefCell::new(BTreeMap::new()) };
}

pub fn reset_logs() {
    INCIRCUIT.with(|g| g.borrow_mut().clear());
    DERIVED_NB.with(|g| g.borrow_mut().clear());
}

impl Val {
    pub fn ty(&self) -> Ty {
        match self {
            Val::Bit(_) => Ty::Bit,
            Val::Byte(_) => Ty::Byte,
            Val::Nat(_) => Ty::Nat,
            Val::SecpS(_) => Ty::SecpS,
            Val::SecpB(_) => Ty::SecpB,
            Val::BlsB(_) => Ty::BlsB,
            Val::JubP(_) => Ty::JubP,
            Val::JubS(_) => Ty::JubS,
            Val::SecpP(_) => Ty::SecpP,
            Val::BlsP(_) => Ty::BlsP,
            Val::Big(_, n) => Ty::Big(*n),
            Val::BigSum(_, _, n) => Ty::BigSum(*n),
            Val::BigMul(_, _, n) => Ty::BigMul(*n),
            Val::SecpBLin(..) => Ty::SecpBLin,
            Val::SecpSLin(..) => Ty::SecpSLin,
            Val::BlsBLin(..) => Ty::BlsBLin,
        }
    }

    /// The off-circuit encoder of the library. `derived_nb` is the bound the gadget reports for
    /// computed BigUints (obtained from a static pass, as a user of the library has to).
    pub fn encode(&self, derived_nb: Option<u32>) -> Vec<F> {
        match self {
            Val::Bit(b) => <AssignedBit<F> as Instantiable<F>>::as_public_input(b),
            Val::Byte(b) => <AssignedByte<F> as Instantiable<F>>::as_public_input(b),
            Val::Nat(x) => <AssignedNative<F> as Instantiable<F>>::as_public_input(x),
            Val::SecpS(x) => <AssignedField<F, KFq, MEP> as Instantiable<F>>::as_public_input(x),
            Val::SecpB(x) => <AssignedField<F, KFp, MEP> as Instantiable<F>>::as_public_input(x),
            Val::BlsB(x) => <AssignedField<F, BlsFp, MEP> as Instantiable<F>>::as_public_input(x),
            Val::JubP(p) => <AssignedNativePoint<Jub> as Instantiable<F>>::as_public_input(p),
            Val::JubS(s) => <AssignedScalarOfNativeCurve<Jub> as Instantiable<F>>::as_public_input(s),
            Val::SecpP(p) => <AssignedForeignPoint<F, K256, MEP> as Instantiable<F>>::as_public_input(p),
            Val::BlsP(p) => <AssignedForeignPoint<F, G1Projective, MEP> as Instantiable<F>>::as_public_input(p),
            // (a published constant carries the bound the gadget derives from its value)
            Val::Big(v, n) => AssignedBigUint::<F>::as_public_input(v, derived_nb.unwrap_or(*n)),
            Val::BigSum(a, b, _) => AssignedBigUint::<F>::as_public_input(&(a + b), derived_nb.expect("derived nb_bits")),
            Val::BigMul(a, b, _) => AssignedBigUint::<F>::as_public_input(&(a * b), derived_nb.expect("derived nb_bits")),
            Val::SecpBLin(a, b, op) => <AssignedField<F, KFp, MEP> as Instantiable<F>>::as_public_input(&lin_value(a, b, *op)),
            Val::SecpSLin(a, b, op) => <AssignedField<F, KFq, MEP> as Instantiable<F>>::as_public_input(&lin_value(a, b, *op)),
            Val::BlsBLin(a, b, op) => <AssignedField<F, BlsFp, MEP> as Instantiable<F>>::as_public_input(&lin_value(a, b, *op)),
        }
    }

    /// Independent reference encoding (this harness' reading of the documented format).
    pub fn reference(&self, derived_nb: Option<u32>) -> Vec<F> {
        fn limbs(x: &BigUint, log2: u32, n: usize) -> Vec<F> {
            let mask = (BigUint::one() << log2) - BigUint::one();
            (0..n).map(|i| F::from_biguint(&((x >> (log2 as usize * i)) & &mask)).unwrap()).collect()
        }
        fn emulated<K: CircuitField>(x: &K, log2: u32, n: usize) -> Vec<F> {
            // limbs of (x - 1) mod m, little-endian, base 2^log2
            let m = K::modulus();
            let v = (x.to_biguint() + &m - BigUint::one()) % &m;
            limbs(&v, log2, n)
        }
        fn big(v: &BigUint, nb: u32) -> Vec<F> {
            limbs(v, BIG_LOG2_BASE, nb.div_ceil(BIG_LOG2_BASE) as usize)
        }
        match self {
            Val::Bit(b) => vec![F::from(*b as u64)],
            Val::Byte(b) => vec![F::from(*b as u64)],
            Val::Nat(x) => vec![*x],
            Val::SecpS(x) => emulated(x, 64, 4),
            Val::SecpB(x) => emulated(x, 64, 4),
            Val::BlsB(x) => emulated(x, 56, 7),
            Val::JubP(p) => {
                let a = Jub::from(*p);
                let a = group::Curve::to_affine(&a);
                vec![a.get_u(), a.get_v()]
            }
            Val::JubS(s) => vec![F::from_biguint(&s.to_biguint()).unwrap()],
            Val::SecpP(p) => {
                if bool::from(p.is_identity()) {
                    let mut v = [emulated(&KFp::ZERO, 64, 4), emulated(&KFp::ZERO, 64, 4)].concat();
                    v[0] += F::from_biguint(&(BigUint::one() << 64)).unwrap();
                    v
                } else {
                    let a = group::Curve::to_affine(p);
                    [emulated(&a.x(), 64, 4), emulated(&a.y(), 64, 4)].concat()
                }
            }
            Val::BlsP(p) => {
                if bool::from(p.is_identity()) {
                    let mut v = [emulated(&BlsFp::ZERO, 56, 7), emulated(&BlsFp::ZERO, 56, 7)].concat();
                    v[0] += F::from_biguint(&(BigUint::one() << 56)).unwrap();
                    v
                } else {
                    let a = group::Curve::to_affine(p);
                    [emulated(&a.x(), 56, 7), emulated(&a.y(), 56, 7)].concat()
                }
            }
            Val::Big(v, n) => big(v, derived_nb.unwrap_or(*n)),
            Val::BigSum(a, b, _) => big(&(a + b), derived_nb.expect("derived nb_bits")),
            Val::BigMul(a, b, _) => big(&(a * b), derived_nb.expect("derived nb_bits")),
            Val::SecpBLin(a, b, op) => emulated(&lin_value(a, b, *op), 64, 4),
            Val::SecpSLin(a, b, op) => emulated(&lin_value(a, b, *op), 64, 4),
            Val::BlsBLin(a, b, op) => emulated(&lin_value(a, b, *op), 56, 7),
        }
    }

    /// canonical identity of the VALUE (for the injectivity check): two alphabet members with the
    /// same identity are the same value
    pub fn identity(&self) -> String {
        use group::GroupEncoding;
        match self {
            Val::Bit(b) => format!("{b}"),
            Val::Byte(b) => format!("{b}"),
            Val::Nat(x) => x.to_biguint().to_str_radix(16),
            Val::SecpS(x) => x.to_biguint().to_str_radix(16),
            Val::SecpB(x) => x.to_biguint().to_str_radix(16),
            Val::BlsB(x) => x.to_biguint().to_str_radix(16),
            Val::JubP(p) => vcore::hex(p.to_bytes().as_ref()),
            Val::JubS(s) => s.to_biguint().to_str_radix(16),
            Val::SecpP(p) => vcore::hex(p.to_bytes().as_ref()),
            Val::BlsP(p) => vcore::hex(p.to_bytes().as_ref()),
            Val::Big(v, _) => v.to_str_radix(16),
            Val::BigSum(a, b, _) => (a + b).to_str_radix(16),
            Val::BigMul(a, b, _) => (a * b).to_str_radix(16),
            Val::SecpBLin(a, b, op) => lin_value(a, b, *op).to_biguint().to_str_radix(16),
            Val::SecpSLin(a, b, op) => lin_value(a, b, *op).to_biguint().to_str_radix(16),
            Val::BlsBLin(a, b, op) => lin_value(a, b, *op).to_biguint().to_str_radix(16),
        }
    }

    pub fn describe(&self) -> String {
        match self {
            Val::Big(v, n) => format!("BigUint(0x{}, nb_bits={n})", v.to_str_radix(16)),
            Val::BigSum(a, b, n) => format!("BigUint(0x{} + 0x{}, operand nb_bits={n})", a.to_str_radix(16), b.to_str_radix(16)),
            Val::BigMul(a, b, n) => format!("BigUint(0x{} * 0x{}, operand nb_bits={n})", a.to_str_radix(16), b.to_str_radix(16)),
            Val::SecpBLin(a, b, op) => format!("secp256k1-base lin(op {op}; 0x{}, 0x{})", a.to_biguint().to_str_radix(16), b.to_biguint().to_str_radix(16)),
            Val::SecpSLin(a, b, op) => format!("secp256k1-scalar lin(op {op}; 0x{}, 0x{})", a.to_biguint().to_str_radix(16), b.to_biguint().to_str_radix(16)),
            Val::BlsBLin(a, b, op) => format!("bls12-381-base lin(op {op}; 0x{}, 0x{})", a.to_biguint().to_str_radix(16), b.to_biguint().to_str_radix(16)),
            v => format!("{}(0x{})", v.ty().tag(), v.identity()),
        }
    }
}

// ---------------------------------------------------------------------------------------------
// in-circuit exposure
// ---------------------------------------------------------------------------------------------

fn log_cells(slot: usize, cells: &[AssignedNative<F>]) {
    let vals: Vec<Option<F>> = cells
        .iter()
        .map(|c| {
            let mut v = None;
            c.value().map(|x| v = Some(*x));
            v
        })
        .collect();
    INCIRCUIT.with(|g| {
        g.borrow_mut().insert(slot, vals);
    });
}

/// assign `v` through `chip` and expose it by `path`; then call the in-circuit analog of
/// `Instantiable::as_public_input` and log the values it returns.
fn gen<T, CH>(chip: &CH, l: &mut impl Layouter<F>, slot: usize, v: Value<T::Element>, c: T::Element, path: Path) -> Result<T, Error>
where
    T: Instantiable<F>,
    CH: AssignmentInstructions<F, T> + PublicInputInstructions<F, T>,
{
    let x: T = match path {
        Path::Constrain => {
            let x = chip.assign(l, v)?;
            chip.constrain_as_public_input(l, &x)?;
            x
        }
        Path::Assign => chip.assign_as_public_input(l, v)?,
        Path::Fixed => {
            let x = chip.assign_fixed(l, c)?;
            chip.constrain_as_public_input(l, &x)?;
            x
        }
        Path::Committed => chip.assign(l, v)?,
    };
    let cells = chip.as_public_input(l, &x)?;
    log_cells(slot, &cells);
    Ok(x)
}

/// assign a and b, combine them with linear operations only, expose the result
fn expose_lin<T, CH>(chip: &CH, l: &mut impl Layouter<F>, slot: usize, a: Value<T::Element>, b: Value<T::Element>, op: u8) -> Result<(), Error>
where
    T: Instantiable<F> + Clone,
    T::Element: CircuitField,
    CH: AssignmentInstructions<F, T> + PublicInputInstructions<F, T> + midnight_circuits::instructions::ArithInstructions<F, T>,
{
    let x: T = chip.assign(l, a)?;
    let y: T = chip.assign(l, b)?;
    let z: T = match op {
        0 => chip.add(l, &x, &y)?,
        1 => chip.sub(l, &x, &y)?,
        2 => chip.neg(l, &x)?,
        3 => {
            let t = chip.add(l, &x, &y)?;
            chip.add(l, &t, &y)?
        }
        _ => chip.add_constant(l, &x, <T::Element as ff::Field>::ONE)?,
    };
    chip.constrain_as_public_input(l, &z)?;
    let cells = chip.as_public_input(l, &z)?;
    log_cells(slot, &cells);
    Ok(())
}

pub fn expose(std: &ZkStdLib, l: &mut impl Layouter<F>, slot: usize, val: &Val, known: &Value<()>, path: Path) -> Result<(), Error> {
    macro_rules! v {
        ($x:expr) => {
            known.clone().map(|_| $x.clone())
        };
    }
    match val {
        Val::Bit(b) => {
            let x: AssignedBit<F> = gen(std, l, slot, v!(b), *b, path)?;
            if path == Path::Committed {
                std.constrain_as_committed_public_input(l, &x)?;
            }
        }
        Val::Byte(b) => {
            let x: AssignedByte<F> = gen(std, l, slot, v!(b), *b, path)?;
            if path == Path::Committed {
                std.constrain_as_committed_public_input(l, &x)?;
            }
        }
        Val::Nat(a) => {
            let x: AssignedNative<F> = gen(std, l, slot, v!(a), *a, path)?;
            if path == Path::Committed {
                std.constrain_as_committed_public_input(l, &x)?;
            }
        }
        Val::SecpS(a) => {
            let _: AssignedField<F, KFq, MEP> = gen(std.secp256k1_scalar(), l, slot, v!(a), *a, path)?;
        }
        Val::SecpB(a) => {
            let _: AssignedField<F, KFp, MEP> = gen(std.secp256k1_curve().base_field_chip(), l, slot, v!(a), *a, path)?;
        }
        Val::BlsB(a) => {
            let _: AssignedField<F, BlsFp, MEP> = gen(std.bls12_381_curve().base_field_chip(), l, slot, v!(a), *a, path)?;
        }
        Val::JubP(p) => {
            let _: AssignedNativePoint<Jub> = gen(std.jubjub(), l, slot, v!(p), *p, path)?;
        }
        Val::JubS(s) => {
            let _: AssignedScalarOfNativeCurve<Jub> = gen(std.jubjub(), l, slot, v!(s), *s, path)?;
        }
        Val::SecpP(p) => {
            let _: AssignedForeignPoint<F, K256, MEP> = gen(std.secp256k1_curve(), l, slot, v!(p), *p, path)?;
        }
        Val::BlsP(p) => {
            let _: AssignedForeignPoint<F, G1Projective, MEP> = gen(std.bls12_381_curve(), l, slot, v!(p), *p, path)?;
        }
        Val::Big(x, nb) => {
            let g = std.biguint();
            match path {
                Path::Fixed => {
                    let a = g.assign_fixed_biguint(l, x.clone())?;
                    let n = a.nb_bits();
                    DERIVED_NB.with(|d| {
                        d.borrow_mut().insert(slot, n);
                    });
                    g.constrain_as_public_input(l, &a, n)?;
                }
                _ => {
                    let a = g.assign_biguint(l, v!(x), *nb)?;
                    g.constrain_as_public_input(l, &a, *nb)?;
                }
            }
        }
        Val::SecpBLin(a, b, op) => expose_lin(std.secp256k1_curve().base_field_chip(), l, slot, v!(a), v!(b), *op)?,
        Val::SecpSLin(a, b, op) => expose_lin(std.secp256k1_scalar(), l, slot, v!(a), v!(b), *op)?,
        Val::BlsBLin(a, b, op) => expose_lin(std.bls12_381_curve().base_field_chip(), l, slot, v!(a), v!(b), *op)?,
        Val::BigSum(a, b, nb) | Val::BigMul(a, b, nb) => {
            let g = std.biguint();
            let x = g.assign_biguint(l, v!(a), *nb)?;
            let y = g.assign_biguint(l, v!(b), *nb)?;
            let z = if matches!(val, Val::BigSum(..)) { g.add(l, &x, &y)? } else { g.mul(l, &x, &y)? };
            let n = z.nb_bits();
            DERIVED_NB.with(|d| {
                d.borrow_mut().insert(slot, n);
            });
            g.constrain_as_public_input(l, &z, n)?;
        }
    }
    Ok(())
}

#[derive(Clone)]
pub struct Expose {
    pub items: Vec<(Val, Path)>,
}

impl Expose {
    pub fn shape(&self) -> String {
        self.items
            .iter()
            .map(|(v, p)| {
                // a published constant may have a value-dependent shape (bit length of a scalar,
                // limb count of a BigUint, cached equal limbs)
                let extra = if *p == Path::Fixed { format!("#{}", v.identity()) } else { String::new() };
                format!("{}:{}{extra}", v.ty().tag(), p.name())
            })
            .collect::<Vec<_>>()
            .join(",")
    }
}

impl Relation for Expose {
    /// the raw plain-instance vector (so that wrong-length vectors can be handed to `verify`)
    type Instance = Vec<F>;
    type Witness = ();

    fn format_instance(x: &Vec<F>) -> Result<Vec<F>, Error> {
        Ok(x.clone())
    }

    fn circuit(&self, std: &ZkStdLib, l: &mut impl Layouter<F>, _i: Value<Vec<F>>, w: Value<()>) -> Result<(), Error> {
        for (slot, (v, p)) in self.items.iter().enumerate() {
            expose(std, l, slot, v, &w, *p)?;
        }
        Ok(())
    }

    fn used_chips(&self) -> ZkStdLibArch {
        let has = |f: &dyn Fn(Ty) -> bool| self.items.iter().any(|(v, _)| f(v.ty()));
        ZkStdLibArch {
            jubjub: has(&|t| matches!(t, Ty::JubP | Ty::JubS)),
            secp256k1: has(&|t| matches!(t, Ty::SecpS | Ty::SecpB | Ty::SecpP | Ty::SecpBLin | Ty::SecpSLin)),
            bls12_381: has(&|t| matches!(t, Ty::BlsB | Ty::BlsP | Ty::BlsBLin)),
            ..ZkStdLibArch::default()
        }
    }

    fn write_relation<W: std::io::Write>(&self, _: &mut W) -> std::io::Result<()> {
        Ok(())
    }

    fn read_relation<R: std::io::Read>(_: &mut R) -> std::io::Result<Self> {
        unimplemented!()
    }
}

// ---------------------------------------------------------------------------------------------
// alphabets
// ---------------------------------------------------------------------------------------------

fn fe<K: CircuitField>(x: &BigUint) -> K {
    K::from_biguint(&(x % K::modulus())).unwrap()
}

fn pow2(n: u32) -> BigUint {
    BigUint::one() << n
}

/// Boundary alphabet of a prime field whose emulation uses limbs of `log2` bits (0 = native).
fn field_alphabet<K: CircuitField>(log2: u32, nlimbs: u32, rng: &mut impl RngCore) -> Vec<(String, K)> {
    let m = K::modulus();
    let mut v: Vec<(String, BigUint)> = vec![
        ("0".into(), BigUint::zero()),
        ("1".into(), BigUint::one()),
        ("m-1".into(), &m - 1u32),
        ("2".into(), BigUint::from(2u32)),
        ("m-2".into(), &m - 2u32),
        ("(m-1)/2".into(), (&m - 1u32) / 2u32),
        ("(m+1)/2".into(), (&m + 1u32) / 2u32),
    ];
    if log2 > 0 {
        // the encoding is that of x-1: put x-1 on limb boundaries
        for i in 1..nlimbs {
            let b = pow2(log2 * i);
            v.push((format!("2^{}", log2 * i), b.clone())); // x-1 = all-ones below the boundary
            v.push((format!("2^{}+1", log2 * i), &b + 1u32)); // x-1 = a single 1 in limb i
            v.push((format!("2^{}+2", log2 * i), &b + 2u32));
        }
        // every limb maximal below the top one
        v.push(("2^(log2*(n-1))".into(), pow2(log2 * (nlimbs - 1))));
    } else {
        for e in [64u32, 128, 192, 254] {
            v.push((format!("2^{e}"), pow2(e)));
            v.push((format!("2^{e}-1"), pow2(e) - 1u32));
        }
    }
    for i in 0..2 {
        let mut b = [0u8; 64];
        rng.fill_bytes(&mut b);
        v.push((format!("random{i}"), BigUint::from_bytes_le(&b) % &m));
    }
    v.into_iter().filter(|(_, x)| x < &m).map(|(n, x)| (n, fe::<K>(&x))).collect()
}

fn point_alphabet<G: Group>(rng: &mut impl RngCore) -> Vec<(String, G)>
where
    G::Scalar: PrimeField,
{
    let g = G::generator();
    vec![
        ("identity".into(), G::identity()),
        ("G".into(), g),
        ("-G".into(), -g),
        ("2G".into(), g.double()),
        ("3G".into(), g.double() + g),
        ("(r-1)/2*G".into(), g * ((-G::Scalar::ONE) * G::Scalar::from(2).invert().unwrap())),
        ("random0".into(), G::random(&mut *rng)),
        ("random1".into(), G::random(&mut *rng)),
    ]
}

/// BigUint values for a given `nb_bits`.
fn big_values(nb: u32, rng: &mut impl RngCore) -> Vec<(String, BigUint)> {
    let mut v = vec![("0".to_string(), BigUint::zero())];
    if nb == 0 {
        return v;
    }
    v.push(("max".into(), pow2(nb) - 1u32));
    v.push(("top-bit".into(), pow2(nb - 1)));
    v.push(("1".into(), BigUint::one()));
    let nl = nb.div_ceil(BIG_LOG2_BASE);
    if nl > 1 {
        v.push(("low-limb-max".into(), pow2(BIG_LOG2_BASE) - 1u32)); // leading zero limbs
        v.push(("top-limb-1".into(), pow2(BIG_LOG2_BASE * (nl - 1)))); // zero low limbs
        v.push(("limb1=1".into(), pow2(BIG_LOG2_BASE)));
    }
    let mut b = vec![0u8; (nb as usize).div_ceil(8) + 8];
    rng.fill_bytes(&mut b);
    v.push(("random".into(), BigUint::from_bytes_le(&b) % pow2(nb)));
    // drop later duplicates of the same value, keeping the order (boundary values first)
    let mut seen: Vec<BigUint> = vec![];
    v.retain(|(_, x)| {
        if seen.contains(x) {
            false
        } else {
            seen.push(x.clone());
            true
        }
    });
    v
}

pub fn big_nb_bits(thorough: bool) -> Vec<u32> {
    // every limb count 1..4, nb_bits at and around multiples of the limb size
    let mut v = vec![1, 8, 95, 96, 97, 191, 192, 193, 287, 288, 289, 383, 384];
    if thorough {
        v.extend([2, 64, 94, 98, 190, 194, 286, 290, 382]);
    }
    v.sort();
    v
}

pub struct Alphabet {
    pub ty: Ty,
    pub members: Vec<(String, Val)>,
}

/// Full alphabets (used for injectivity in every tier); `quick_pick` selects the circuit cases.
pub fn alphabets(seed: u64, thorough: bool) -> Vec<Alphabet> {
    let mut rng = vcore::rng_for(seed, "c08-alphabet");
    let mut out = vec![];
    out.push(Alphabet { ty: Ty::Bit, members: vec![("false".into(), Val::Bit(false)), ("true".into(), Val::Bit(true))] });
    out.push(Alphabet {
        ty: Ty::Byte,
        members: [0u8, 255, 1, 128, 127, 2, 0x55, 0xaa, 254].iter().map(|b| (format!("{b}"), Val::Byte(*b))).collect(),
    });
    out.push(Alphabet { ty: Ty::Nat, members: field_alphabet::<F>(0, 1, &mut rng).into_iter().map(|(n, x)| (n, Val::Nat(x))).collect() });
    out.push(Alphabet { ty: Ty::SecpS, members: field_alphabet::<KFq>(64, 4, &mut rng).into_iter().map(|(n, x)| (n, Val::SecpS(x))).collect() });
    out.push(Alphabet { ty: Ty::SecpB, members: field_alphabet::<KFp>(64, 4, &mut rng).into_iter().map(|(n, x)| (n, Val::SecpB(x))).collect() });
    out.push(Alphabet { ty: Ty::BlsB, members: field_alphabet::<BlsFp>(56, 7, &mut rng).into_iter().map(|(n, x)| (n, Val::BlsB(x))).collect() });
    out.push(Alphabet { ty: Ty::JubP, members: point_alphabet::<JubjubSubgroup>(&mut rng).into_iter().map(|(n, x)| (n, Val::JubP(x))).collect() });
    {
        let mut m = field_alphabet::<JFr>(0, 1, &mut rng);
        m.retain(|(n, _)| n != "2^254" && n != "2^254-1");
        m.push(("2^251".into(), fe::<JFr>(&pow2(251))));
        out.push(Alphabet { ty: Ty::JubS, members: m.into_iter().map(|(n, x)| (n, Val::JubS(x))).collect() });
    }
    out.push(Alphabet { ty: Ty::SecpP, members: point_alphabet::<K256>(&mut rng).into_iter().map(|(n, x)| (n, Val::SecpP(x))).collect() });
    out.push(Alphabet { ty: Ty::BlsP, members: point_alphabet::<G1Projective>(&mut rng).into_iter().map(|(n, x)| (n, Val::BlsP(x))).collect() });
    // computed emulated elements: operand pairs that carry, borrow and wrap around the modulus
    {
        fn lin_pairs<K: CircuitField>(rng: &mut impl RngCore) -> Vec<(String, K, K, u8)> {
            let m1 = -K::ONE;
            let r0 = K::random(&mut *rng);
            let r1 = K::random(&mut *rng);
            let half = m1 * K::from(2).invert().unwrap();
            vec![
                ("(m-1)+(m-1)".into(), m1, m1, 0),
                ("0-1".into(), K::ZERO, K::ONE, 1),
                ("-(1)".into(), K::ONE, K::ZERO, 2),
                ("r0+r1".into(), r0, r1, 0),
                ("5+7".into(), K::from(5), K::from(7), 0),
                ("r0-r1".into(), r0, r1, 1),
                ("-r0".into(), r0, K::ZERO, 2),
                ("(m-1)+1+1".into(), m1, K::ONE, 3),
                ("(m-1)+const 1".into(), m1, K::ZERO, 4),
                ("half+half".into(), half, half, 0),
                ("0+0".into(), K::ZERO, K::ZERO, 0),
                ("-(0)".into(), K::ZERO, K::ZERO, 2),
            ]
        }
        out.push(Alphabet { ty: Ty::SecpBLin, members: lin_pairs::<KFp>(&mut rng).into_iter().map(|(n, a, b, o)| (n, Val::SecpBLin(a, b, o))).collect() });
        out.push(Alphabet { ty: Ty::SecpSLin, members: lin_pairs::<KFq>(&mut rng).into_iter().map(|(n, a, b, o)| (n, Val::SecpSLin(a, b, o))).collect() });
        out.push(Alphabet { ty: Ty::BlsBLin, members: lin_pairs::<BlsFp>(&mut rng).into_iter().map(|(n, a, b, o)| (n, Val::BlsBLin(a, b, o))).collect() });
    }
    for nb in big_nb_bits(thorough) {
        out.push(Alphabet { ty: Ty::Big(nb), members: big_values(nb, &mut rng).into_iter().map(|(n, x)| (n, Val::Big(x, nb))).collect() });
    }
    for nb in [8u32, 96, 97, 192] {
        let vals = big_values(nb, &mut rng);
        let pick = |name: &str| vals.iter().find(|v| v.0 == name).map(|v| v.1.clone()).unwrap_or_else(|| BigUint::from(3u32));
        let pairs = vec![
            ("0,0", BigUint::zero(), BigUint::zero()),
            ("max,max", pick("max"), pick("max")),
            ("max,1", pick("max"), BigUint::one()),
            ("random,top-bit", pick("random"), pick("top-bit")),
        ];
        out.push(Alphabet { ty: Ty::BigSum(nb), members: pairs.iter().map(|(n, a, b)| (format!("{n}"), Val::BigSum(a.clone(), b.clone(), nb))).collect() });
        if nb <= 97 {
            out.push(Alphabet { ty: Ty::BigMul(nb), members: pairs.iter().map(|(n, a, b)| (format!("{n}"), Val::BigMul(a.clone(), b.clone(), nb))).collect() });
        }
    }
    out
}

/// number of alphabet members that go through the circuit in the quick tier
pub fn quick_pick(ty: Ty) -> usize {
    match ty {
        Ty::Big(_) => 3,
        Ty::BigSum(_) | Ty::BigMul(_) => 2,
        Ty::BlsP | Ty::SecpP | Ty::BlsB => 3,
        Ty::SecpBLin => 4,
        Ty::SecpSLin | Ty::BlsBLin => 3,
        _ => 4,
    }
}
