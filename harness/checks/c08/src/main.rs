//! C08 — the off-circuit public-input encoding is exactly what the circuit binds.
//!
//! For every type that can be exposed as a public input, every member of a boundary alphabet and
//! every exposure path, on the real `MidnightCircuit`:
//!  (a) MockProver accepts with instance = `Instantiable::as_public_input(v)`;
//!  (b) it rejects every single-position edit (+1) and drop-last;
//!  (c) the vector the circuit binds (in-circuit `as_public_input`, and the cells copy-constrained
//!      to the instance rows) equals the off-circuit encoding element-wise, and no row beyond the
//!      encoding is bound;
//!  (d) the off-circuit encoder is injective on the alphabet (and agrees with the documented format);
//!  (e) `nb_public_inputs` of the `MidnightVK` equals the length of the encoding for relations
//!      exposing sequences of mixed types, and `verify` answers `InvalidInstances` on longer /
//!      shorter vectors.

mod mock;
mod types;
mod verif;
mod zk;

use std::collections::HashMap;

use ff::Field;

use midnight_proofs::{plonk::Error, utils::SerdeFormat};
use midnight_zk_stdlib::{MidnightCircuit, MidnightVK, ZkStdLibArch};
use rand_chacha::ChaCha20Rng;
use rand_core::SeedableRng;
use serde_json::json;
use vcore::{catch, panic_site, CaseOut, Ctx, Level, Viol};

use crate::{
    mock::{check_expose, hexv},
    types::{alphabets, quick_pick, Alphabet, Expose, Path, Ty, Val, F},
};

type H = blake2b_simd::State;

pub fn vk_nb_public_inputs(vk: &MidnightVK, arch: ZkStdLibArch) -> Result<usize, String> {
    let mut a = vec![];
    arch.write(&mut a).map_err(|e| e.to_string())?;
    let mut b = vec![];
    vk.write(&mut b, SerdeFormat::RawBytes).map_err(|e| e.to_string())?;
    if b.len() < a.len() + 5 || b[..a.len()] != a[..] {
        return Err("unexpected MidnightVK header".into());
    }
    Ok(u32::from_le_bytes(b[a.len() + 1..a.len() + 5].try_into().unwrap()) as usize)
}

fn encbytes(v: &[F]) -> Vec<u8> {
    v.iter().flat_map(|x| x.to_bytes_le().as_ref().to_vec()).collect()
}

/// (d) injectivity and agreement with the documented format, over one alphabet
fn injectivity(a: &Alphabet) -> CaseOut {
    let mut out = CaseOut::batch();
    let t = a.ty.name();
    // computed BigUints: the bound comes from the circuit; the natural one is used here
    let nb = match a.ty {
        Ty::BigSum(n) => Some(n + 1),
        Ty::BigMul(n) => Some(2 * n),
        _ => None,
    };
    let mut seen: HashMap<Vec<u8>, (String, String)> = HashMap::new();
    for (name, v) in &a.members {
        let enc = match catch(|| v.encode(nb)) {
            Ok(e) => e,
            Err(p) => {
                out.eval("off-circuit:panic", true);
                out.viol(Viol::new(format!("{t}:off-circuit:panic"), format!("Instantiable::as_public_input panicked on {}: {p}", v.describe()), json!({"value": v.describe(), "panic": p})));
                continue;
            }
        };
        let reference = v.reference(nb);
        let agrees = enc == reference;
        out.eval(if agrees { "encoding:as-documented" } else { "encoding:not-as-documented" }, true);
        if !agrees {
            out.viol(Viol::new(
                format!("{t}:off-circuit-encoding-differs-from-documented-format"),
                format!("off-circuit encoding of {} differs from the documented format (limbs of x-1 / coordinates / is-identity flag on limb 0 / base-2^96 limbs)", v.describe()),
                json!({"value": v.describe(), "encoding": hexv(&enc), "reference": hexv(&reference)}),
            ));
        }
        let id = v.identity();
        match seen.get(&encbytes(&enc)) {
            Some((other_name, other_id)) if *other_id != id => {
                out.eval("injectivity:collision", true);
                out.viol(Viol::new(
                    format!("{t}:encoding-not-injective"),
                    format!("distinct values `{other_name}` and `{name}` of type {} share one encoding", a.ty.tag()),
                    json!({"a": other_name, "b": name, "b_value": v.describe(), "encoding": hexv(&enc)}),
                ));
            }
            Some(_) => out.count("injectivity:same-value-twice", 1),
            None => {
                out.eval("injectivity:distinct", true);
                seen.insert(encbytes(&enc), (name.clone(), id));
            }
        }
    }
    out
}

fn main() {
    let mut cx = Ctx::from_args("C08", Level::Exploration);
    cx.worker_rayon_threads = Some(1);
    cx.set_rule(
        "types: AssignedBit, AssignedByte, AssignedNative, AssignedField over secp256k1 scalar / secp256k1 base / BLS12-381 base, \
         AssignedNativePoint<Jubjub>, AssignedScalarOfNativeCurve<Jubjub>, AssignedForeignPoint over secp256k1 and BLS12-381 G1 (incl. identity), \
         AssignedBigUint (nb_bits at and around multiples of 96 for 1..4 limbs, nb_bits=0, sums and products with gadget-derived bounds), \
         AssignedVk, AssignedAccumulator/AssignedMsm (plain and committed-scalars form), the six ZKIR value types; \
         values: boundary alphabet per type (0, 1, m-1, limb boundaries of x-1, identity, ±G, maximal limbs, leading/trailing zero limbs, 2 seeded random); \
         paths: assign+constrain_as_public_input, assign_as_public_input, assign_fixed+constrain_as_public_input, constrain_as_committed_public_input (bit/byte/native); \
         per (type,value,path): MockProver on the real MidnightCircuit with instance = off-circuit encoding, every +1 single-position edit, drop-last, \
         element-wise comparison of the encoding with the in-circuit as_public_input and with the cells copy-constrained to the instance rows; \
         injectivity of the encoder over the whole alphabet; relations exposing all sequences of <=3 types (quick: <=2 plus a diagonal of the triples) and one 40-value relation: \
         nb_public_inputs in MidnightVK = length of the encoding, verify() with longer/shorter vector = InvalidInstances, real prove+verify for the short ones. \
         A case is non-trivial unless the exposed vector is empty.",
    );
    cx.assume("MockProver's permutation check is the ground truth for `the circuit is satisfied with this instance vector` (C02 checks MockProver itself)");
    cx.assume("a shorter instance vector is padded with zeros by the proof system, so dropping a trailing 0 is the same vector; length is enforced by nb_public_inputs in verify (checked in the sequences group)");
    let seed = cx.seed;
    let thorough = cx.tier.is_thorough();
    let alpha = alphabets(seed, thorough);

    // ------------------------------------------------------------------ (d) injectivity
    let inj_cases: Vec<(String, &Alphabet)> = alpha.iter().map(|a| (a.ty.tag(), a)).collect();
    cx.run_cases("injectivity", &inj_cases, |a| injectivity(a));

    // ------------------------------------------------------------------ (a)(b)(c) per type, value, path
    let mut cases: Vec<(String, (Val, Path))> = vec![];
    for a in &alpha {
        let n = if thorough { a.members.len() } else { quick_pick(a.ty).min(a.members.len()) };
        for (name, v) in a.members.iter().take(n) {
            for p in a.ty.paths() {
                cases.push((format!("{}/{}/{}", a.ty.tag(), name, p.name()), (v.clone(), p)));
            }
        }
    }
    // boundary of the BigUint bound itself
    cases.push(("Big0/0/constrain".into(), (Val::Big(num_bigint::BigUint::from(0u32), 0), Path::Constrain)));
    cx.run_cases("expose", &cases, |(v, p)| {
        let mut out = CaseOut::batch();
        let rel = Expose { items: vec![(v.clone(), *p)] };
        let what = format!("{} via {}", v.describe(), p.name());
        if let Some(enc) = check_expose(&rel, &what, &mut out) {
            out.sample = Some(json!({"value": v.describe(), "path": p.name(), "encoding": hexv(if *p == Path::Committed { &enc.committed } else { &enc.plain })}));
        }
        // nb_bits = 0 is reported under its own key
        if matches!(v, Val::Big(_, 0)) {
            for x in out.viols.iter_mut() {
                x.finding_key = format!("AssignedBigUint:nb_bits=0:{}", x.finding_key.rsplit(':').next().unwrap_or(""));
            }
        }
        out
    });

    // ------------------------------------------------------------------ anti-vacuity: the oracle notices wrong encoders
    {
        use midnight_proofs::circuit::Value;
        let find = |ty: Ty, name: &str| -> Val { alpha.iter().find(|a| a.ty == ty).and_then(|a| a.members.iter().find(|m| m.0 == name)).map(|m| m.1.clone()).unwrap() };
        let labels_of = |n: usize| vec![("self-check".to_string(), "constrain".to_string()); n];
        // 1. identity point encoded without the is-identity flag; 2. two limbs swapped; 3. one element too many
        let id = find(Ty::SecpP, "identity");
        let mut no_flag = id.encode(None);
        no_flag[0] -= F::from(2).pow_vartime([64u64]);
        let fe = find(Ty::BlsB, "random0");
        let mut swapped = fe.encode(None);
        swapped.swap(0, 1);
        let nat = find(Ty::Nat, "2");
        let mut too_long = nat.encode(None);
        too_long.push(F::from(5));
        for (name, v, wrong, expect) in [
            ("identity-without-flag", id, no_flag, "encoding-not-accepted"),
            ("swapped-limbs", fe, swapped, "encoding-not-accepted"),
            ("one-element-too-many", nat, too_long, "edit-accepted"),
        ] {
            let rel = Expose { items: vec![(v, Path::Constrain)] };
            let (k, _) = mock::static_pass(&rel).expect("static pass");
            let circuit = MidnightCircuit::new(&rel, Value::known(wrong.clone()), Value::known(()), Some(mock::MAX_BIT_LEN));
            let labs = labels_of(wrong.len());
            let mut scratch = CaseOut::batch();
            mock::check_circuit(&circuit, k, &[], &wrong, &[], &mock::Labels { plain: &labs, committed: &[] }, name, &mut scratch);
            let noticed = scratch.viols.iter().any(|x| x.finding_key.ends_with(expect));
            cx.require(noticed, &format!("the oracle does not notice the deliberately wrong encoding `{name}`"));
            cx.add_counter("self-check:wrong-encoder-noticed", noticed as u64);
        }
    }

    // ------------------------------------------------------------------ (e) sequences of mixed types
    let pick = |ty: Ty, name: &str| -> Val { alpha.iter().find(|a| a.ty == ty).and_then(|a| a.members.iter().find(|m| m.0 == name)).map(|m| m.1.clone()).unwrap_or_else(|| panic!("no member {name} in {ty:?}")) };
    let reps: Vec<Val> = vec![
        pick(Ty::Bit, "true"),
        pick(Ty::Byte, "255"),
        pick(Ty::Nat, "m-1"),
        pick(Ty::SecpS, "m-2"),
        pick(Ty::JubP, "G"),
        pick(Ty::JubS, "m-1"),
        pick(Ty::SecpP, "-G"),
        pick(Ty::BlsP, "random0"),
        pick(Ty::Big(97), "max"),
    ];
    let path_for = |v: &Val, i: usize, flip: usize| -> Path {
        let ps: Vec<Path> = v.ty().paths().into_iter().filter(|p| matches!(p, Path::Constrain | Path::Assign)).collect();
        ps[(i + flip) % ps.len()]
    };
    let mut seqs: Vec<(String, (Vec<(Val, Path)>, bool))> = vec![];
    let n = reps.len();
    let mk = |idx: &[usize], flip: usize| -> (String, Vec<(Val, Path)>) {
        let items: Vec<(Val, Path)> = idx.iter().enumerate().map(|(i, t)| (reps[*t].clone(), path_for(&reps[*t], i, flip))).collect();
        (format!("[{}]", items.iter().map(|(v, p)| format!("{}:{}", v.ty().tag(), p.name())).collect::<Vec<_>>().join(",")), items)
    };
    for flip in 0..2usize {
        if flip == 0 {
            let (k, it) = mk(&[], 0);
            seqs.push((k, (it, true)));
        }
        for a in 0..n {
            let (k, it) = mk(&[a], flip);
            // real proofs for the length-1 relations
            seqs.push((k, (it, true)));
            for b in 0..n {
                let (k, it) = mk(&[a, b], flip);
                seqs.push((k, (it, thorough && flip == 0)));
                for c in 0..n {
                    if thorough || (flip == 0 && (a + 2 * b + 3 * c) % 9 == 0) {
                        let (k, it) = mk(&[a, b, c], flip);
                        seqs.push((k, (it, false)));
                    }
                }
            }
        }
    }
    // boundary representatives (zeros and identities): all sequences of length <= 1 (quick) / <= 2 (thorough)
    {
        let reps0: Vec<Val> = vec![
            pick(Ty::Bit, "false"),
            pick(Ty::Byte, "0"),
            pick(Ty::Nat, "0"),
            pick(Ty::SecpS, "0"),
            pick(Ty::JubP, "identity"),
            pick(Ty::JubS, "0"),
            pick(Ty::SecpP, "identity"),
            pick(Ty::BlsP, "identity"),
            pick(Ty::Big(96), "0"),
        ];
        let mk0 = |idx: &[usize]| -> (String, Vec<(Val, Path)>) {
            let items: Vec<(Val, Path)> = idx.iter().enumerate().map(|(i, t)| (reps0[*t].clone(), path_for(&reps0[*t], i, 0))).collect();
            (format!("zeros[{}]", items.iter().map(|(v, p)| format!("{}:{}", v.ty().tag(), p.name())).collect::<Vec<_>>().join(",")), items)
        };
        for a in 0..n {
            let (k, it) = mk0(&[a]);
            seqs.push((k, (it, thorough)));
            if thorough {
                for b in 0..n {
                    let (k, it) = mk0(&[a, b]);
                    seqs.push((k, (it, false)));
                }
            }
        }
    }
    // committed public inputs do not count in nb_public_inputs
    {
        let nat = pick(Ty::Nat, "m-1");
        let byte = pick(Ty::Byte, "255");
        let bit = pick(Ty::Bit, "true");
        for (name, items) in [
            ("committed[Nat]", vec![(nat.clone(), Path::Committed)]),
            ("committed[Nat,Nat:constrain,Byte]", vec![(nat.clone(), Path::Committed), (nat.clone(), Path::Constrain), (byte.clone(), Path::Committed)]),
            ("committed[Bit:assign,Bit,SecpP,Byte,Nat:constrain]", vec![(bit.clone(), Path::Assign), (bit.clone(), Path::Committed), (reps[6].clone(), Path::Constrain), (byte.clone(), Path::Committed), (nat.clone(), Path::Constrain)]),
        ] {
            seqs.push((name.to_string(), (items, false)));
        }
    }
    // remove duplicates created by types with a single path
    {
        let mut seen = std::collections::HashSet::new();
        seqs.retain(|s| seen.insert(s.0.clone()));
    }
    // the 40-value relation: cycles through the types and through each alphabet
    {
        let tys = [Ty::Bit, Ty::Byte, Ty::Nat, Ty::SecpS, Ty::SecpB, Ty::BlsB, Ty::JubP, Ty::JubS, Ty::SecpP, Ty::BlsP, Ty::Big(97), Ty::Big(288)];
        let items: Vec<(Val, Path)> = (0..40)
            .map(|i| {
                let a = alpha.iter().find(|a| a.ty == tys[i % tys.len()]).unwrap();
                let v = a.members[(i / tys.len()) % a.members.len()].1.clone();
                let p = path_for(&v, i / tys.len(), i % 2);
                (v, p)
            })
            .collect();
        seqs.push(("forty-values".into(), (items, true)));
    }
    seqs.sort_by_key(|s| s.1 .0.len());
    cx.run_cases("sequences", &seqs, |(items, real)| {
        let mut out = CaseOut::batch();
        let t_start = std::time::Instant::now();
        let rel = Expose { items: items.clone() };
        let what = format!("the sequence [{}]", items.iter().map(|(v, p)| format!("{} via {}", v.describe(), p.name())).collect::<Vec<_>>().join("; "));
        let Some(enc) = check_expose(&rel, &what, &mut out) else { return out };
        let n = enc.plain.len();
        let nontrivial = n > 0;
        // keys
        let r = catch(|| {
            let k = MidnightCircuit::from_relation(&rel).min_k();
            let srs = vfam::api::setup(k, seed);
            let vk = midnight_zk_stdlib::setup_vk(&srs, &rel);
            (k, srs, vk)
        });
        let (k, srs, vk) = match r {
            Ok(x) => x,
            Err(p) => {
                out.eval("setup_vk:panic", nontrivial);
                out.viol(Viol::new(format!("setup_vk:panic:{}", panic_site(&p)), format!("setup_vk panicked for {what}: {p}"), json!({"case": what})));
                return out;
            }
        };
        use midnight_zk_stdlib::Relation;
        match vk_nb_public_inputs(&vk, rel.used_chips()) {
            Err(e) => out.viol(Viol::new("nb_public_inputs:unreadable", e, json!({"case": what}))),
            Ok(got) => {
                out.eval(if got == n { "nb_public_inputs:equal" } else { "nb_public_inputs:differs" }, nontrivial);
                if got != n {
                    out.viol(Viol::new(
                        "nb_public_inputs:mismatch",
                        format!("MidnightVK records nb_public_inputs = {got} while the off-circuit encoding of {what} has {n} elements"),
                        json!({"case": what, "recorded": got, "encoding_len": n, "k": k}),
                    ));
                    return out;
                }
            }
        }
        let vparams = srs.verifier_params();
        let proof: Vec<u8> = if *real {
            let r = catch(|| {
                let pk = midnight_zk_stdlib::setup_pk(&rel, &vk);
                midnight_zk_stdlib::prove::<Expose, H>(&srs, &pk, &rel, &enc.plain, (), ChaCha20Rng::seed_from_u64(seed ^ 0xc08))
            });
            match r {
                Ok(Ok(p)) => {
                    out.eval("prove:ok", nontrivial);
                    p
                }
                Ok(Err(e)) => {
                    out.eval("prove:error", nontrivial);
                    out.viol(Viol::new("prove:honest-statement-fails", format!("prove failed on the off-circuit encoding of {what}: {e:?}"), json!({"case": what})));
                    return out;
                }
                Err(p) => {
                    out.eval("prove:panic", nontrivial);
                    out.viol(Viol::new(format!("prove:panic:{}", panic_site(&p)), format!("prove panicked on {what}: {p}"), json!({"case": what})));
                    return out;
                }
            }
        } else {
            vec![]
        };
        let verify = |inst: &Vec<F>| catch(|| midnight_zk_stdlib::verify::<Expose, H>(&vparams, &vk, inst, None, &proof));
        if *real {
            match verify(&enc.plain) {
                Ok(Ok(())) => out.eval("verify:honest-accepted", nontrivial),
                Ok(Err(e)) => {
                    out.eval("verify:honest-rejected", nontrivial);
                    out.viol(Viol::new("verify:honest-proof-rejected", format!("verify rejects an honest proof with the off-circuit encoding of {what}: {e:?}"), json!({"case": what})));
                }
                Err(p) => out.viol(Viol::new(format!("verify:panic:{}", panic_site(&p)), format!("verify panicked on {what}: {p}"), json!({"case": what}))),
            }
            // same length, one element edited: must be rejected (any error)
            for pos in [0usize, n.saturating_sub(1)] {
                if pos >= n {
                    continue;
                }
                let mut e = enc.plain.clone();
                e[pos] += F::from(1);
                match verify(&e) {
                    Ok(Ok(())) => {
                        out.eval("verify:edited-accepted", true);
                        let (t, p) = enc.plain_labels[pos].clone();
                        out.viol(Viol::new(format!("{t}:{p}:edit-accepted"), format!("the real verifier accepts the proof for {what} with position {pos} of the instance incremented"), json!({"case": what, "position": pos})));
                    }
                    Ok(Err(_)) => out.eval("verify:edited-rejected", true),
                    Err(p) => out.viol(Viol::new(format!("verify:panic:{}", panic_site(&p)), format!("verify panicked: {p}"), json!({"case": what}))),
                }
            }
        }
        // wrong lengths
        let mut wrong: Vec<(&str, Vec<F>)> = vec![];
        let mut longer = enc.plain.clone();
        longer.push(F::from(0));
        wrong.push(("append-0", longer));
        let mut longer2 = enc.plain.clone();
        longer2.extend([F::from(7), F::from(0)]);
        wrong.push(("append-7-0", longer2));
        if n > 0 {
            wrong.push(("drop-last", enc.plain[..n - 1].to_vec()));
            wrong.push(("empty", vec![]));
        }
        for (name, w) in wrong {
            if w.len() == n {
                continue;
            }
            match verify(&w) {
                Ok(Err(Error::InvalidInstances)) => out.eval("verify:wrong-length:InvalidInstances", true),
                Ok(r) => {
                    out.eval("verify:wrong-length:other", true);
                    out.viol(Viol::new(
                        "verify:wrong-length-not-InvalidInstances",
                        format!("verify with a vector of length {} ({name}) instead of {n} returned {r:?} for {what}", w.len()),
                        json!({"case": what, "mutation": name, "real_proof": real}),
                    ));
                }
                Err(p) => {
                    out.eval("verify:wrong-length:panic", true);
                    out.viol(Viol::new(format!("verify:wrong-length:panic:{}", panic_site(&p)), format!("verify panicked on a wrong-length vector ({name}) for {what}: {p}"), json!({"case": what})));
                }
            }
            // the batch entry point insists on the same number
            match catch(|| midnight_zk_stdlib::batch_verify::<H>(&vparams, std::slice::from_ref(&vk), std::slice::from_ref(&w), std::slice::from_ref(&proof))) {
                Ok(Err(Error::InvalidInstances)) => out.eval("batch_verify:wrong-length:InvalidInstances", true),
                Ok(r) => {
                    out.eval("batch_verify:wrong-length:other", true);
                    out.viol(Viol::new(
                        "batch_verify:wrong-length-not-InvalidInstances",
                        format!("batch_verify with a vector of length {} ({name}) instead of {n} returned {r:?} for {what}", w.len()),
                        json!({"case": what, "mutation": name, "real_proof": real}),
                    ));
                }
                Err(p) => out.viol(Viol::new(format!("batch_verify:wrong-length:panic:{}", panic_site(&p)), format!("batch_verify panicked on a wrong-length vector ({name}) for {what}: {p}"), json!({"case": what}))),
            }
        }
        if *real && enc.committed.is_empty() {
            match catch(|| midnight_zk_stdlib::batch_verify::<H>(&vparams, std::slice::from_ref(&vk), std::slice::from_ref(&enc.plain), std::slice::from_ref(&proof))) {
                Ok(Ok(())) => out.eval("batch_verify:honest-accepted", nontrivial),
                Ok(Err(e)) => {
                    out.eval("batch_verify:honest-rejected", nontrivial);
                    out.viol(Viol::new("batch_verify:honest-proof-rejected", format!("batch_verify rejects an honest proof with the off-circuit encoding of {what}: {e:?}"), json!({"case": what})));
                }
                Err(p) => out.viol(Viol::new(format!("batch_verify:panic:{}", panic_site(&p)), format!("batch_verify panicked on {what}: {p}"), json!({"case": what}))),
            }
        }
        out.sample = Some(json!({"relation": what, "k": k, "nb_public_inputs": n, "real_proof": real}));
        if std::env::var("C08_TIMING").is_ok() {
            eprintln!("TIMING {:.3}s k={k} real={real} {}", t_start.elapsed().as_secs_f64(), rel.shape());
        }
        out
    });

    // ------------------------------------------------------------------ verifier types
    verif::run(&mut cx);

    // ------------------------------------------------------------------ ZKIR value types
    zk::run(&mut cx);

    // ------------------------------------------------------------------ anti-vacuity
    let sum = |cx: &Ctx, suffix: &str| -> u64 { ["expose", "sequences"].iter().map(|g| cx.class_count(&format!("{g}:{suffix}"))).sum() };
    let (s1, s2, s3, s4) = (sum(&cx, "honest:accepted"), sum(&cx, "edit+1:rejected"), sum(&cx, "bound-cell:equal"), sum(&cx, "in-circuit-as_public_input:equal"));
    cx.require(s1 > 100, "fewer than 100 honest exposures accepted");
    cx.require(s2 > 500, "fewer than 500 rejected single-position edits");
    cx.require(s3 > 500, "bound-cell comparison did not run");
    cx.require(s4 > 100, "in-circuit as_public_input comparison did not run");
    cx.require(cx.class_count("injectivity:injectivity:distinct") > 150, "injectivity check did not run");
    cx.require(cx.class_count("sequences:nb_public_inputs:equal") > 50, "nb_public_inputs comparison did not run");
    cx.require(cx.class_count("sequences:verify:wrong-length:InvalidInstances") > 100, "wrong-length verification did not run");
    cx.require(cx.class_count("sequences:verify:honest-accepted") >= 10, "no real proof verified");
    cx.finish()
}
