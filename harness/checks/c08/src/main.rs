fn main() {}
