//! Running an `Expose` relation through `MidnightCircuit` + `MockProver` and the oracle (a)-(c).

use std::{
    collections::{BTreeMap, HashMap},
    sync::Mutex,
};

use midnight_proofs::{
    circuit::Value,
    dev::{CellValue, InstanceValue, MockProver},
    plonk::{Any, Circuit},
};
use midnight_zk_stdlib::MidnightCircuit;
use rayon::iter::ParallelIterator;
use serde_json::json;
use vcore::{catch, panic_site, CaseOut, Viol};

use crate::types::{reset_logs, Expose, Path, DERIVED_NB, F, INCIRCUIT};

pub const MAX_BIT_LEN: u8 = 8;

static K_CACHE: Mutex<Option<HashMap<String, (u32, BTreeMap<usize, u32>)>>> = Mutex::new(None);

/// Static pass (unknown witnesses): the minimal `k` and the `nb_bits` bounds the BigUint gadget
/// derives for computed values.
pub fn static_pass(rel: &Expose) -> Result<(u32, BTreeMap<usize, u32>), String> {
    let key = rel.shape();
    if let Some(v) = K_CACHE.lock().unwrap().get_or_insert_with(HashMap::new).get(&key) {
        return Ok(v.clone());
    }
    reset_logs();
    let k = catch(|| MidnightCircuit::new(rel, Value::unknown(), Value::unknown(), Some(MAX_BIT_LEN)).min_k())?;
    let derived = DERIVED_NB.with(|d| d.borrow().clone());
    K_CACHE.lock().unwrap().get_or_insert_with(HashMap::new).insert(key, (k, derived.clone()));
    Ok((k, derived))
}

pub fn hexf(x: &F) -> String {
    use midnight_circuits::CircuitField;
    format!("0x{}", x.to_biguint().to_str_radix(16))
}

pub fn hexv(v: &[F]) -> Vec<String> {
    v.iter().map(hexf).collect()
}

/// Values of the non-instance cells copy-constrained to (instance column `col`, row), for rows
/// `0..rows`. An empty inner vector means the row is not bound to anything.
pub fn bound_cells(prover: &MockProver<F>, col: usize, rows: usize) -> Vec<Vec<Option<F>>> {
    let perm = prover.permutation();
    let cols = perm.columns().to_vec();
    let Some(ici) = cols.iter().position(|c| matches!(c.column_type(), Any::Instance) && c.index() == col) else {
        return vec![vec![]; rows];
    };
    let mapping: Vec<Vec<(usize, usize)>> = perm.mapping().map(|c| c.collect()).collect();
    (0..rows)
        .map(|row| {
            let mut vals = vec![];
            let mut cur = mapping[ici][row];
            let mut steps = 0;
            while cur != (ici, row) && steps < 100_000 {
                let c = cols[cur.0];
                let cell = match c.column_type() {
                    Any::Advice(_) => Some(prover.advice()[c.index()][cur.1]),
                    Any::Fixed => Some(prover.fixed()[c.index()][cur.1]),
                    Any::Instance => None,
                };
                match cell {
                    Some(CellValue::Assigned(v)) => vals.push(Some(v)),
                    Some(_) => vals.push(None),
                    // another instance cell in the same cycle (e.g. a cached constant published
                    // twice): it has to carry the same value
                    None => vals.push(Some(match &prover.instance()[c.index()][cur.1] {
                        InstanceValue::Assigned(v) => *v,
                        InstanceValue::Padding => F::from(0),
                    })),
                }
                cur = mapping[cur.0][cur.1];
                steps += 1;
            }
            vals
        })
        .collect()
}

pub struct Labels<'a> {
    /// (type name, path name) owning plain position i / committed position i
    pub plain: &'a [(String, String)],
    pub committed: &'a [(String, String)],
}

/// Oracle (a), (b), (c) on one circuit. `per_slot` are the encodings of the individual items
/// (for the comparison with the in-circuit `as_public_input`), `plain`/`committed` the vectors
/// the two instance columns should carry.
#[allow(clippy::too_many_arguments)]
pub fn check_circuit<C: Circuit<F>>(
    circuit: &C,
    k: u32,
    committed: &[F],
    plain: &[F],
    per_slot: &[Option<Vec<F>>],
    labels: &Labels,
    what: &str,
    out: &mut CaseOut,
) -> bool {
    let first = |v: &[(String, String)]| v.first().cloned().unwrap_or(("empty".into(), "none".into()));
    let (t0, p0) = if plain.is_empty() { first(labels.committed) } else { first(labels.plain) };
    let detail = |extra: serde_json::Value| json!({"case": what, "k": k, "plain_instance": hexv(plain), "committed_instance": hexv(committed), "extra": extra});
    reset_logs();
    let r = catch(|| MockProver::run(k, circuit, vec![committed.to_vec(), plain.to_vec()]));
    let incircuit = INCIRCUIT.with(|g| g.borrow().clone());
    let mut prover = match r {
        Err(p) => {
            out.eval("honest:panic", true);
            out.viol(Viol::new(format!("{t0}:{p0}:panic"), format!("synthesis of a circuit exposing {what} panicked at {}: {p}", panic_site(&p)), detail(json!({"panic": p}))));
            return false;
        }
        Ok(Err(e)) => {
            out.eval("honest:synthesis-error", true);
            out.viol(Viol::new(
                format!("{t0}:{p0}:encoding-not-accepted"),
                format!("synthesis of a circuit exposing {what} failed: {e:?}"),
                detail(json!({"error": format!("{e:?}")})),
            ));
            return false;
        }
        Ok(Ok(p)) => p,
    };
    // (a) accepted with the off-circuit encoding
    match catch(|| prover.verify()) {
        Ok(Ok(())) => out.eval("honest:accepted", true),
        Ok(Err(errs)) => {
            out.eval("honest:rejected", true);
            let s: Vec<String> = errs.iter().take(3).map(|e| format!("{e:?}").split_whitespace().collect::<Vec<_>>().join(" ").chars().take(160).collect()).collect();
            // name the first position whose bound cell differs, if any
            let b = bound_cells(&prover, 1, plain.len());
            let pos = (0..plain.len()).find(|i| b[*i].iter().any(|c| *c != Some(plain[*i])));
            let (t, p) = pos.map(|i| labels.plain[i].clone()).unwrap_or((t0.clone(), p0.clone()));
            out.viol(Viol::new(
                format!("{t}:{p}:encoding-not-accepted"),
                format!("the circuit exposing {what} is NOT satisfied with the off-circuit encoding as instance (first differing position: {pos:?}): {}", s.join(" | ")),
                detail(json!({"failures": s, "bound_cells": b.iter().map(|r| r.iter().map(|c| c.map(|x| hexf(&x))).collect::<Vec<_>>()).collect::<Vec<_>>() })),
            ));
            return false;
        }
        Err(p) => {
            out.eval("honest:verify-panic", true);
            out.viol(Viol::new(format!("{t0}:{p0}:panic"), format!("MockProver::verify panicked for {what}: {p}"), detail(json!({"panic": p}))));
            return false;
        }
    }
    // (c1) the in-circuit analog of as_public_input returns the off-circuit encoding
    for (slot, enc) in per_slot.iter().enumerate() {
        let (Some(enc), Some(got)) = (enc, incircuit.get(&slot)) else { continue };
        let got: Vec<F> = got.iter().map(|x| x.unwrap_or(F::from(0))).collect();
        let same = &got == enc;
        out.eval(if same { "in-circuit-as_public_input:equal" } else { "in-circuit-as_public_input:differs" }, true);
        if !same {
            let (t, _) = labels.plain.first().cloned().unwrap_or((t0.clone(), p0.clone()));
            out.viol(Viol::new(
                format!("{t}:bound-vector-differs-from-off-circuit-encoding"),
                format!("in-circuit as_public_input of slot {slot} of {what} returns a vector different from Instantiable::as_public_input"),
                detail(json!({"slot": slot, "in_circuit": hexv(&got), "off_circuit": hexv(enc)})),
            ));
        }
    }
    // (c2) the cells copy-constrained to the instance rows carry exactly the encoding
    for (col, vec, labs) in [(0usize, committed, labels.committed), (1usize, plain, labels.plain)] {
        let b = bound_cells(&prover, col, vec.len() + 3);
        for (i, cells) in b.iter().enumerate() {
            if i < vec.len() {
                let ok = !cells.is_empty() && cells.iter().all(|c| *c == Some(vec[i]));
                out.eval(if ok { "bound-cell:equal" } else { "bound-cell:differs" }, true);
                if !ok {
                    let (t, _) = labs[i].clone();
                    out.viol(Viol::new(
                        format!("{t}:bound-vector-differs-from-off-circuit-encoding"),
                        format!(
                            "instance column {col} row {i} of the circuit exposing {what} is {} while the encoding has {}",
                            if cells.is_empty() { "not bound to any cell".to_string() } else { format!("bound to cells holding {:?}", cells.iter().map(|c| c.map(|x| hexf(&x))).collect::<Vec<_>>()) },
                            hexf(&vec[i])
                        ),
                        detail(json!({"column": col, "row": i})),
                    ));
                }
            } else {
                let ok = cells.is_empty();
                out.eval(if ok { "row-beyond-encoding:unbound" } else { "row-beyond-encoding:bound" }, true);
                if !ok {
                    let (t, _) = labs.last().cloned().unwrap_or((t0.clone(), p0.clone()));
                    out.viol(Viol::new(
                        format!("{t}:bound-vector-differs-from-off-circuit-encoding"),
                        format!("the circuit exposing {what} binds instance column {col} row {i}, beyond the {} elements of the encoding", vec.len()),
                        detail(json!({"column": col, "row": i})),
                    ));
                }
            }
        }
    }
    // (b) single-position edits and drop-last
    let empty = std::iter::empty::<usize>();
    for (col, vec, labs) in [(0usize, committed, labels.committed), (1usize, plain, labels.plain)] {
        for pos in 0..vec.len() {
            let old = prover.instance()[col][pos].clone();
            prover.instance_mut()[col][pos] = InstanceValue::Assigned(vec[pos] + F::from(1));
            let ok = catch(|| prover.verify_at_rows(empty.clone(), empty.clone()).is_ok()).unwrap_or(false);
            prover.instance_mut()[col][pos] = old;
            out.eval(if ok { "edit+1:accepted" } else { "edit+1:rejected" }, true);
            if ok {
                let (t, p) = labs[pos].clone();
                out.viol(Viol::new(
                    format!("{t}:{p}:edit-accepted"),
                    format!("the circuit exposing {what} is still satisfied after adding 1 to instance column {col} position {pos}"),
                    detail(json!({"column": col, "position": pos})),
                ));
            }
        }
        if let Some(last) = vec.len().checked_sub(1) {
            if vec[last] == F::from(0) {
                // a shorter vector is padded with zeros by the proof system: same vector
                out.count("drop-last:last-element-is-0(same-as-padding)", 1);
            } else {
                let old = prover.instance()[col][last].clone();
                prover.instance_mut()[col][last] = InstanceValue::Padding;
                let ok = catch(|| prover.verify_at_rows(empty.clone(), empty.clone()).is_ok()).unwrap_or(false);
                prover.instance_mut()[col][last] = old;
                out.eval(if ok { "drop-last:accepted" } else { "drop-last:rejected" }, true);
                if ok {
                    let (t, p) = labs[last].clone();
                    out.viol(Viol::new(
                        format!("{t}:{p}:edit-accepted"),
                        format!("the circuit exposing {what} is still satisfied after dropping the last element of instance column {col}"),
                        detail(json!({"column": col, "dropped": last})),
                    ));
                }
            }
        }
    }
    true
}

/// Encodings of the items of `rel`: per slot, and the two instance columns.
pub struct Encoded {
    pub per_slot: Vec<Option<Vec<F>>>,
    pub plain: Vec<F>,
    pub committed: Vec<F>,
    pub plain_labels: Vec<(String, String)>,
    pub committed_labels: Vec<(String, String)>,
}

pub fn encode_items(rel: &Expose, derived: &BTreeMap<usize, u32>) -> Result<Encoded, (usize, String)> {
    let mut e = Encoded { per_slot: vec![], plain: vec![], committed: vec![], plain_labels: vec![], committed_labels: vec![] };
    for (slot, (v, p)) in rel.items.iter().enumerate() {
        let enc = catch(|| v.encode(derived.get(&slot).copied())).map_err(|m| (slot, m))?;
        let lab = (v.ty().name().to_string(), p.name().to_string());
        if *p == Path::Committed {
            e.committed.extend(enc.iter().copied());
            e.committed_labels.extend(enc.iter().map(|_| lab.clone()));
        } else {
            e.plain.extend(enc.iter().copied());
            e.plain_labels.extend(enc.iter().map(|_| lab.clone()));
        }
        e.per_slot.push(Some(enc));
    }
    Ok(e)
}

/// Full oracle on an `Expose` relation.
pub fn check_expose(rel: &Expose, what: &str, out: &mut CaseOut) -> Option<Encoded> {
    let (t0, p0) = rel.items.first().map(|(v, p)| (v.ty().name().to_string(), p.name().to_string())).unwrap_or(("empty".into(), "none".into()));
    let (k, derived) = match static_pass(rel) {
        Ok(x) => x,
        Err(p) => {
            out.eval("static-pass:panic", true);
            out.viol(Viol::new(format!("{t0}:{p0}:panic"), format!("synthesis without witnesses of a circuit exposing {what} panicked at {}: {p}", panic_site(&p)), json!({"case": what, "panic": p})));
            return None;
        }
    };
    let enc = match encode_items(rel, &derived) {
        Ok(e) => e,
        Err((slot, p)) => {
            out.eval("off-circuit-encoder:panic", true);
            let t = rel.items[slot].0.ty().name();
            out.viol(Viol::new(format!("{t}:off-circuit:panic"), format!("the off-circuit encoder panicked on {}: {p}", rel.items[slot].0.describe()), json!({"case": what, "panic": p})));
            return None;
        }
    };
    let circuit = MidnightCircuit::new(rel, Value::known(enc.plain.clone()), Value::known(()), Some(MAX_BIT_LEN));
    let labels = Labels { plain: &enc.plain_labels, committed: &enc.committed_labels };
    let ok = check_circuit(&circuit, k, &enc.committed, &enc.plain, &enc.per_slot, &labels, what, out);
    ok.then_some(enc)
}
