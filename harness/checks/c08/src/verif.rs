//! Verifier-side public-input types: `AssignedVk`, `AssignedMsm`, `AssignedAccumulator`
//! (plain and committed-scalars form). These are not reachable through `ZkStdLib`; the circuit
//! below wires the chips the way `zk_stdlib/examples/ivc.rs` does (no proof is verified in it:
//! the values are witnessed and exposed, nothing else).

use std::collections::{BTreeMap, HashMap};

use ff::Field;
use group::Group;
use midnight_circuits::{
    ecc::foreign::{nb_foreign_ecc_chip_columns, ForeignEccChip, ForeignEccConfig},
    field::{
        decomposition::{
            chip::{P2RDecompositionChip, P2RDecompositionConfig},
            pow2range::Pow2RangeChip,
        },
        foreign::FieldChip,
        native::NB_ARITH_COLS,
        NativeChip, NativeConfig, NativeGadget,
    },
    hash::poseidon::{PoseidonChip, PoseidonConfig, NB_POSEIDON_ADVICE_COLS, NB_POSEIDON_FIXED_COLS},
    instructions::PublicInputInstructions,
    types::{AssignedNative, ComposableChip, Instantiable},
    verifier::{Accumulator, AssignedAccumulator, AssignedMsm, AssignedVk, BlstrsEmulation, Msm, VerifierGadget},
};
use midnight_curves::{Fp as BlsFp, G1Projective};
use midnight_proofs::{
    circuit::{Layouter, SimpleFloorPlanner, Value},
    plonk::{k_from_circuit, Circuit, ConstraintSystem, Error},
    poly::EvaluationDomain,
};
use serde_json::json;
use vcore::{catch, CaseOut, Ctx, Viol};

use crate::{
    mock::{check_circuit, hexv, Labels},
    types::{Expose, Path, Val, F, INCIRCUIT},
};

type S = BlstrsEmulation;
type C = G1Projective;
type NG = NativeGadget<F, P2RDecompositionChip<F>, NativeChip<F>>;
type Vk = midnight_proofs::plonk::VerifyingKey<F, midnight_proofs::poly::kzg::KZGCommitmentScheme<midnight_curves::Bls12>>;

#[derive(Clone)]
pub enum VItem {
    Vk { name: String, domain: EvaluationDomain<F>, cs: ConstraintSystem<F>, repr: F },
    Acc { acc: Accumulator<S>, lhs_len: usize, rhs_len: usize, lhs_names: Vec<String>, rhs_names: Vec<String>, committed_scalars: bool },
}

#[derive(Clone)]
pub struct VCircuit {
    pub items: Vec<VItem>,
    pub known: bool,
}

type VConfig = (NativeConfig, P2RDecompositionConfig, ForeignEccConfig<C>, PoseidonConfig<F>);

fn log_cells(slot: usize, cells: &[AssignedNative<F>]) {
    let vals: Vec<Option<F>> = cells
        .iter()
        .map(|c| {
            let mut v = None;
            c.value().map(|x| v = Some(*x));
            v
        })
        .collect();
    INCIRCUIT.with(|g| {
        g.borrow_mut().insert(slot, vals);
    });
}

impl Circuit<F> for VCircuit {
    type Config = VConfig;
    type FloorPlanner = SimpleFloorPlanner;
    type Params = ();

    fn without_witnesses(&self) -> Self {
        VCircuit { items: self.items.clone(), known: false }
    }

    fn configure(meta: &mut ConstraintSystem<F>) -> VConfig {
        let nb_advice_cols = nb_foreign_ecc_chip_columns::<F, C, C, NG>();
        let nb_fixed_cols = NB_ARITH_COLS + 4;
        let advice_columns: Vec<_> = (0..nb_advice_cols).map(|_| meta.advice_column()).collect();
        let fixed_columns: Vec<_> = (0..nb_fixed_cols).map(|_| meta.fixed_column()).collect();
        let committed_instance_column = meta.instance_column();
        let instance_column = meta.instance_column();
        let native_config = NativeChip::configure(
            meta,
            &(
                advice_columns[..NB_ARITH_COLS].try_into().unwrap(),
                fixed_columns[..NB_ARITH_COLS + 4].try_into().unwrap(),
                [committed_instance_column, instance_column],
            ),
        );
        let core_decomp_config = {
            let pow2_config = Pow2RangeChip::configure(meta, &advice_columns[1..NB_ARITH_COLS]);
            P2RDecompositionChip::configure(meta, &(native_config.clone(), pow2_config))
        };
        let base_config = FieldChip::<F, BlsFp, C, NG>::configure(meta, &advice_columns);
        let curve_config = ForeignEccChip::<F, C, C, NG, NG>::configure(meta, &base_config, &advice_columns);
        let poseidon_config = PoseidonChip::configure(
            meta,
            &(advice_columns[..NB_POSEIDON_ADVICE_COLS].try_into().unwrap(), fixed_columns[..NB_POSEIDON_FIXED_COLS].try_into().unwrap()),
        );
        (native_config, core_decomp_config, curve_config, poseidon_config)
    }

    fn synthesize(&self, config: VConfig, mut layouter: impl Layouter<F>) -> Result<(), Error> {
        let native_chip = <NativeChip<F> as ComposableChip<F>>::new(&config.0, &());
        let core_decomp_chip = P2RDecompositionChip::new(&config.1, &8);
        let scalar_chip: NG = NativeGadget::new(core_decomp_chip.clone(), native_chip.clone());
        let curve_chip = ForeignEccChip::<F, C, C, NG, NG>::new(&config.2, &scalar_chip, &scalar_chip);
        let poseidon_chip = PoseidonChip::new(&config.3, &native_chip);
        let verifier = VerifierGadget::<S>::new(&curve_chip, &scalar_chip, &poseidon_chip);
        let l = &mut layouter;
        for (slot, item) in self.items.iter().enumerate() {
            match item {
                VItem::Vk { name, domain, cs, repr } => {
                    let v = if self.known { Value::known(*repr) } else { Value::unknown() };
                    let avk: AssignedVk<S> = verifier.assign_vk_as_public_input(l, name, domain, cs, v)?;
                    let cells = verifier.as_public_input(l, &avk)?;
                    log_cells(slot, &cells);
                }
                VItem::Acc { acc, lhs_len, rhs_len, lhs_names, rhs_names, committed_scalars } => {
                    let v = if self.known { Value::known(acc.clone()) } else { Value::unknown() };
                    let a = AssignedAccumulator::<S>::assign(l, &curve_chip, &scalar_chip, *lhs_len, *rhs_len, lhs_names, rhs_names, v)?;
                    if *committed_scalars {
                        verifier.constrain_acc_as_public_input_with_committed_scalars(l, &a)?;
                    } else {
                        verifier.constrain_as_public_input(l, &a)?;
                    }
                    let cells = verifier.as_public_input(l, &a)?;
                    log_cells(slot, &cells);
                }
            }
        }
        core_decomp_chip.load(l)
    }
}

fn msm_identity(m: &Msm<S>) -> String {
    use group::GroupEncoding;
    use midnight_circuits::CircuitField;
    format!(
        "b[{}]s[{}]f[{}]",
        m.bases().iter().map(|b| vcore::hex(b.to_bytes().as_ref())).collect::<Vec<_>>().join(","),
        m.scalars().iter().map(|s| s.to_biguint().to_str_radix(16)).collect::<Vec<_>>().join(","),
        m.fixed_base_scalars().iter().map(|(k, s)| format!("{k}={}", s.to_biguint().to_str_radix(16))).collect::<Vec<_>>().join(",")
    )
}

fn encbytes(v: &[F]) -> Vec<u8> {
    v.iter().flat_map(|x| x.to_bytes_le().as_ref().to_vec()).collect()
}

pub fn run(cx: &mut Ctx) {
    let seed = cx.seed;
    let thorough = cx.tier.is_thorough();
    let mut rng = cx.rng("c08-verif");
    let g = C::generator();
    let pts: Vec<(&str, C)> = vec![("id", C::identity()), ("G", g), ("-G", -g), ("R", C::random(&mut rng))];
    let scs: Vec<(&str, F)> = vec![("0", F::ZERO), ("1", F::ONE), ("p-1", -F::ONE), ("r", F::random(&mut rng))];

    // ---- verifying keys of a few relations
    let rels: Vec<(&str, Expose)> = vec![
        ("bit", Expose { items: vec![(Val::Bit(true), Path::Constrain)] }),
        ("native", Expose { items: vec![(Val::Nat(F::from(5)), Path::Constrain)] }),
        // same circuit as the previous one (assign_as_public_input = assign + constrain for natives): same key
        ("native-assign", Expose { items: vec![(Val::Nat(F::from(5)), Path::Assign)] }),
        ("native,native", Expose { items: vec![(Val::Nat(F::from(5)), Path::Constrain), (Val::Nat(F::from(5)), Path::Constrain)] }),
        ("byte,native", Expose { items: vec![(Val::Byte(3), Path::Constrain), (Val::Nat(F::from(5)), Path::Constrain)] }),
        ("empty", Expose { items: vec![] }),
    ];
    let mut vks: Vec<(String, Vk)> = vec![];
    for (name, rel) in &rels {
        let r = catch(|| {
            let k = midnight_zk_stdlib::MidnightCircuit::from_relation(rel).min_k();
            let srs = vfam::api::setup(k, seed);
            midnight_zk_stdlib::setup_vk(&srs, rel).vk().clone()
        });
        match r {
            Ok(vk) => vks.push((name.to_string(), vk)),
            Err(p) => cx.machinery_error(format!("cannot build the verifying key of relation {name}: {p}")),
        }
    }

    // ---- (d) injectivity, off-circuit
    {
        let mut out = CaseOut::batch();
        // verifying keys
        let mut seen: HashMap<Vec<u8>, (String, Vec<u8>)> = HashMap::new();
        for (name, vk) in &vks {
            match catch(|| <AssignedVk<S> as Instantiable<F>>::as_public_input(vk)) {
                Err(p) => out.viol(Viol::new("AssignedVk:off-circuit:panic", format!("AssignedVk::as_public_input panicked: {p}"), json!({"vk": name}))),
                Ok(enc) => {
                    let as_doc = enc == vec![vk.transcript_repr()];
                    out.eval(if as_doc { "encoding:as-documented" } else { "encoding:not-as-documented" }, true);
                    if !as_doc {
                        out.viol(Viol::new("AssignedVk:off-circuit-encoding-differs-from-documented-format", "AssignedVk::as_public_input is not [transcript_repr]", json!({"vk": name, "encoding": hexv(&enc)})));
                    }
                    // identity of the VALUE: the serialised key
                    let mut id = vec![];
                    let _ = vk.write(&mut id, midnight_proofs::utils::SerdeFormat::RawBytes);
                    match seen.insert(encbytes(&enc), (name.clone(), id.clone())) {
                        Some((other, other_id)) if other_id != id => {
                            out.eval("injectivity:collision", true);
                            out.viol(Viol::new("AssignedVk:encoding-not-injective", format!("the distinct verifying keys of relations `{other}` and `{name}` share one encoding"), json!({"a": other, "b": name})));
                        }
                        Some(_) => out.count("injectivity:same-value-twice", 1),
                        None => out.eval("injectivity:distinct", true),
                    }
                }
            }
        }
        cx.record("verifier-types-injectivity", "AssignedVk", out);

        // MSMs of one shape: 2 bases, 2 scalars, fixed scalars {a, b}
        let mut out = CaseOut::batch();
        let mut seen: HashMap<Vec<u8>, String> = HashMap::new();
        let mut seen_c: HashMap<Vec<u8>, String> = HashMap::new();
        let mut msms: Vec<Msm<S>> = vec![];
        let np = if thorough { 4 } else { 3 };
        for b0 in 0..np {
            for b1 in 0..np {
                for s0 in 0..np {
                    for s1 in 0..np {
                        for f0 in 0..np {
                            for f1 in 0..np {
                                let fixed: BTreeMap<String, F> = [("a".to_string(), scs[f0].1), ("b".to_string(), scs[f1].1)].into_iter().collect();
                                msms.push(Msm::<S>::new(&[pts[b0].1, pts[b1].1], &[scs[s0].1, scs[s1].1], &fixed));
                            }
                        }
                    }
                }
            }
        }
        for m in &msms {
            let id = msm_identity(m);
            let r = catch(|| (<AssignedMsm<S> as Instantiable<F>>::as_public_input(m), AssignedMsm::<S>::as_public_input_with_committed_scalars(m)));
            let (enc, (plain, comm)) = match r {
                Ok(x) => x,
                Err(p) => {
                    out.viol(Viol::new("AssignedMsm:off-circuit:panic", format!("AssignedMsm::as_public_input panicked: {p}"), json!({"msm": id})));
                    continue;
                }
            };
            // documented format: bases, then scalars, then fixed-base scalars in key order
            let reference: Vec<F> = m
                .bases()
                .iter()
                .flat_map(|b| Val::BlsP(*b).reference(None))
                .chain(m.scalars())
                .chain(m.fixed_base_scalars().values().copied())
                .collect();
            let nb = reference.len() - m.scalars().len() - m.fixed_base_scalars().len();
            let as_doc = enc == reference && plain == reference[..nb] && comm == reference[nb..];
            out.eval(if as_doc { "encoding:as-documented" } else { "encoding:not-as-documented" }, true);
            if !as_doc {
                out.viol(Viol::new("AssignedMsm:off-circuit-encoding-differs-from-documented-format", "AssignedMsm encodings are not bases ++ scalars ++ fixed-base scalars", json!({"msm": id, "encoding": hexv(&enc)})));
            }
            for (form, key, table) in [("plain", encbytes(&enc), &mut seen), ("committed-scalars", [encbytes(&plain), vec![0xff; 4], encbytes(&comm)].concat(), &mut seen_c)] {
                match table.insert(key, id.clone()) {
                    Some(other) if other != id => {
                        out.eval("injectivity:collision", true);
                        out.viol(Viol::new("AssignedMsm:encoding-not-injective", format!("two distinct MSMs of the same shape share one encoding ({form} form)"), json!({"a": other, "b": id})));
                    }
                    _ => out.eval("injectivity:distinct", true),
                }
            }
        }
        cx.record("verifier-types-injectivity", "AssignedMsm", out);

        // accumulators: pairs of MSMs (a diagonal of the MSM alphabet on each side)
        let mut out = CaseOut::batch();
        let mut seen: HashMap<Vec<u8>, String> = HashMap::new();
        let step = if thorough { 7 } else { 29 };
        let side: Vec<&Msm<S>> = msms.iter().step_by(step).collect();
        for l in &side {
            for r in &side {
                let acc = Accumulator::<S>::new((*l).clone(), (*r).clone());
                let id = format!("{} | {}", msm_identity(l), msm_identity(r));
                match catch(|| (<AssignedAccumulator<S> as Instantiable<F>>::as_public_input(&acc), AssignedAccumulator::<S>::as_public_input_with_committed_scalars(&acc))) {
                    Err(p) => out.viol(Viol::new("AssignedAccumulator:off-circuit:panic", format!("as_public_input panicked: {p}"), json!({"acc": id}))),
                    Ok((enc, (plain, comm))) => {
                        let el = <AssignedMsm<S> as Instantiable<F>>::as_public_input(l);
                        let (rp, rc) = AssignedMsm::<S>::as_public_input_with_committed_scalars(r);
                        let er = <AssignedMsm<S> as Instantiable<F>>::as_public_input(r);
                        let as_doc = enc == [el.clone(), er].concat() && plain == [el, rp].concat() && comm == rc;
                        out.eval(if as_doc { "encoding:as-documented" } else { "encoding:not-as-documented" }, true);
                        if !as_doc {
                            out.viol(Viol::new("AssignedAccumulator:off-circuit-encoding-differs-from-documented-format", "accumulator encoding is not lhs ++ rhs", json!({"acc": id})));
                        }
                        match seen.insert(encbytes(&enc), id.clone()) {
                            Some(other) if other != id => {
                                out.eval("injectivity:collision", true);
                                out.viol(Viol::new("AssignedAccumulator:encoding-not-injective", "two distinct accumulators of the same shape share one encoding", json!({"a": other, "b": id})));
                            }
                            _ => out.eval("injectivity:distinct", true),
                        }
                    }
                }
            }
        }
        cx.record("verifier-types-injectivity", "AssignedAccumulator", out);
    }

    // ---- (a)(b)(c) in circuit
    let mut cases: Vec<(String, Vec<VItem>)> = vec![];
    for (name, vk) in &vks {
        cases.push((
            format!("vk/{name}"),
            vec![VItem::Vk { name: "v".into(), domain: vk.get_domain().clone(), cs: vk.cs().clone(), repr: vk.transcript_repr() }],
        ));
    }
    let names: Vec<String> = vec!["-G".into(), "v_fixed_com_0".into(), "v_perm_com_0".into()];
    let mut accs: Vec<(String, Accumulator<S>, usize, usize, Vec<String>, Vec<String>)> = vec![];
    let fixed = |a: usize, b: usize, c: usize| -> BTreeMap<String, F> { names.iter().cloned().zip([scs[a].1, scs[b].1, scs[c].1]).collect() };
    // shape 1: the shape of a collapsed proof accumulator (1 base each side, fixed scalars on the rhs)
    let picks: Vec<(usize, usize, usize, usize, usize)> = if thorough {
        let mut v = vec![];
        for a in 0..4 {
            for b in 0..4 {
                for c in 0..4 {
                    v.push((a, b, c, (a + b) % 4, (b + c) % 4));
                }
            }
        }
        v
    } else {
        vec![(0, 0, 0, 0, 0), (1, 1, 1, 1, 1), (3, 0, 2, 3, 2), (2, 3, 3, 2, 0)]
    };
    for (a, b, c, d, e) in picks {
        let acc = Accumulator::<S>::new(Msm::new(&[pts[a].1], &[scs[c].1], &BTreeMap::new()), Msm::new(&[pts[b].1], &[scs[d].1], &fixed(e, c, d)));
        accs.push((format!("shape1/{}-{}-{}-{}-{}", pts[a].0, pts[b].0, scs[c].0, scs[d].0, scs[e].0), acc, 1, 1, vec![], names.clone()));
    }
    // shape 2: two terms on the left, none on the right, no fixed scalars
    for (a, b, c, d) in [(0usize, 3usize, 2usize, 3usize), (1, 0, 0, 1)] {
        let acc = Accumulator::<S>::new(Msm::new(&[pts[a].1, pts[b].1], &[scs[c].1, scs[d].1], &BTreeMap::new()), Msm::new(&[], &[], &BTreeMap::new()));
        accs.push((format!("shape2/{}-{}-{}-{}", pts[a].0, pts[b].0, scs[c].0, scs[d].0), acc, 2, 0, vec![], vec![]));
    }
    // shape 3: fixed-base names handed to `assign` in an order that is not the lexicographic one
    // (as `fixed_base_names` produces from 11 commitments on: "…_com_10" < "…_com_2"), with
    // pairwise distinct scalars
    {
        let unsorted: Vec<String> = vec!["v_perm_com_0".into(), "v_fixed_com_2".into(), "-G".into(), "v_fixed_com_10".into()];
        let m: BTreeMap<String, F> = unsorted.iter().cloned().zip([scs[1].1, scs[2].1, scs[3].1, scs[1].1 + scs[2].1]).collect();
        let acc = Accumulator::<S>::new(Msm::new(&[pts[1].1], &[scs[2].1], &BTreeMap::new()), Msm::new(&[pts[2].1], &[scs[3].1], &m));
        accs.push(("shape3/unsorted-names".to_string(), acc, 1, 1, vec![], unsorted));
    }
    for (name, acc, ll, rl, ln, rn) in &accs {
        for committed_scalars in [false, true] {
            cases.push((
                format!("acc/{name}/{}", if committed_scalars { "committed-scalars" } else { "plain" }),
                vec![VItem::Acc { acc: acc.clone(), lhs_len: *ll, rhs_len: *rl, lhs_names: ln.clone(), rhs_names: rn.clone(), committed_scalars }],
            ));
        }
    }
    // a vk followed by an accumulator (the IVC instance layout)
    if let (Some((_, vk)), Some((_, acc, ll, rl, ln, rn))) = (vks.first(), accs.get(2)) {
        for committed_scalars in [false, true] {
            cases.push((
                format!("vk+acc/{}", if committed_scalars { "committed-scalars" } else { "plain" }),
                vec![
                    VItem::Vk { name: "v".into(), domain: vk.get_domain().clone(), cs: vk.cs().clone(), repr: vk.transcript_repr() },
                    VItem::Acc { acc: acc.clone(), lhs_len: *ll, rhs_len: *rl, lhs_names: ln.clone(), rhs_names: rn.clone(), committed_scalars },
                ],
            ));
        }
    }
    let k_cache: std::sync::Mutex<HashMap<String, u32>> = std::sync::Mutex::new(HashMap::new());
    cx.run_cases("verifier-types", &cases, |items| {
        let mut out = CaseOut::batch();
        let shape: String = items
            .iter()
            .map(|i| match i {
                VItem::Vk { .. } => "vk".to_string(),
                VItem::Acc { lhs_len, rhs_len, rhs_names, committed_scalars, .. } => format!("acc{lhs_len}-{rhs_len}-{}-{committed_scalars}", rhs_names.len()),
            })
            .collect::<Vec<_>>()
            .join("+");
        let cached = k_cache.lock().unwrap().get(&shape).copied();
        let k = match cached {
            Some(k) => k,
            None => match catch(|| k_from_circuit(&VCircuit { items: items.clone(), known: false })) {
                Ok(k) => {
                    k_cache.lock().unwrap().insert(shape.clone(), k);
                    k
                }
                Err(p) => {
                    out.viol(Viol::new("AssignedAccumulator:constrain:panic", format!("synthesis without witnesses panicked: {p}"), json!({"shape": shape})));
                    return out;
                }
            },
        };
        let (mut plain, mut committed, mut pl, mut cl, mut per_slot) = (vec![], vec![], vec![], vec![], vec![]);
        let mut what = vec![];
        for it in items {
            match it {
                VItem::Vk { repr, .. } => {
                    // (the encoding of the key itself was compared with [transcript_repr] above)
                    plain.push(*repr);
                    pl.push(("AssignedVk".to_string(), "assign_vk_as_public_input".to_string()));
                    per_slot.push(Some(vec![*repr]));
                    what.push("a verifying key".to_string());
                }
                VItem::Acc { acc, committed_scalars, .. } => {
                    let full = <AssignedAccumulator<S> as Instantiable<F>>::as_public_input(acc);
                    if *committed_scalars {
                        let (p, c) = AssignedAccumulator::<S>::as_public_input_with_committed_scalars(acc);
                        pl.extend(p.iter().map(|_| ("AssignedAccumulator".to_string(), "constrain-with-committed-scalars".to_string())));
                        cl.extend(c.iter().map(|_| ("AssignedAccumulator".to_string(), "constrain-with-committed-scalars".to_string())));
                        plain.extend(p);
                        committed.extend(c);
                    } else {
                        pl.extend(full.iter().map(|_| ("AssignedAccumulator".to_string(), "constrain".to_string())));
                        plain.extend(full.iter().copied());
                    }
                    per_slot.push(Some(full));
                    what.push(format!("the accumulator {} | {}", msm_identity(&acc.lhs()), msm_identity(&acc.rhs())));
                }
            }
        }
        let circuit = VCircuit { items: items.clone(), known: true };
        let labels = Labels { plain: &pl, committed: &cl };
        check_circuit(&circuit, k, &committed, &plain, &per_slot, &labels, &what.join(" and "), &mut out);
        out.sample = Some(json!({"k": k, "plain_len": plain.len(), "committed_len": committed.len()}));
        out
    });
    cx.note(
        "AssignedVk: PublicInputInstructions::{constrain,assign}_as_public_input of VerifierGadget are documented as intentionally unimplemented; \
         the only entry point (assign_vk_as_public_input) is the one exercised. AssignedMsm has no public in-circuit exposure of its own: it is covered \
         through AssignedAccumulator (both sides) and off-circuit.",
    );
}
