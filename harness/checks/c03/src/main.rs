//! C03 — a proof is accepted only for the exact statement and bytes it was made for.
//!
//! For proofs of a sub-lattice of the family, every element of the proof (located through the
//! recorded prover transcript) is replaced by other valid values and by invalid encodings, the
//! proof is truncated at every element boundary and inside every element, extended, (thorough)
//! flipped bit by bit; every public input is edited; the key and the transcript hash are
//! swapped for wrong ones. Every mutated input must be rejected; the unmutated one accepted.

mod stdlib;

use ff::{Field, PrimeField};
use group::{prime::PrimeCurveAffine, Curve, Group, GroupEncoding};
use midnight_curves::{G1Affine, G1Projective};
use num_bigint::BigUint;
use serde_json::json;
use vcore::{CaseOut, Ctx, Level, Viol};
use vfam::{
    api::Verdict,
    fam::{FamParams, F},
    lattice::{self, Config, Hash, Wit},
    rectrans::Kind,
};

#[derive(Clone, Debug)]
enum Mutation {
    None,
    /// replace bytes [off, off+len) by `bytes`
    Replace { off: usize, bytes: Vec<u8>, class: &'static str },
    Truncate { len: usize, class: &'static str },
    Append { n: usize },
    FlipBit { bit: usize },
    /// public-input edits
    InstAdd1 { proof: usize, col: usize, row: usize },
    InstSwap { proof: usize, col: usize, a: usize, b: usize },
    InstDropLast { proof: usize, col: usize },
    InstAppend0 { proof: usize, col: usize },
    InstMove { proof: usize, from: usize, to: usize },
    InstSwapProofs,
    CommittedEdit { proof: usize, col: usize },
    WrongVk { class: &'static str, p: FamParams, k: u32 },
    WrongHash,
}

impl Mutation {
    fn class(&self) -> String {
        match self {
            Mutation::None => "none".into(),
            Mutation::Replace { class, .. } => class.to_string(),
            Mutation::Truncate { class, .. } => class.to_string(),
            Mutation::Append { .. } => "append-bytes".into(),
            Mutation::FlipBit { .. } => "bit-flip".into(),
            Mutation::InstAdd1 { .. } => "instance+1".into(),
            Mutation::InstSwap { .. } => "instance-swap".into(),
            Mutation::InstDropLast { .. } => "instance-drop-last".into(),
            Mutation::InstAppend0 { .. } => "instance-append-0".into(),
            Mutation::InstMove { .. } => "instance-move-column".into(),
            Mutation::InstSwapProofs => "instance-swap-proofs".into(),
            Mutation::CommittedEdit { .. } => "committed-instance-edit".into(),
            Mutation::WrongVk { class, .. } => format!("wrong-vk:{class}"),
            Mutation::WrongHash => "wrong-transcript-hash".into(),
        }
    }
}

struct Subject {
    cfg: Config,
    proof: Vec<u8>,
    committed: Vec<Vec<G1Projective>>,
    plain: Vec<Vec<Vec<F>>>,
    /// (offset, len, 'G' | 'S')
    elements: Vec<(usize, usize, char)>,
}

fn p_modulus() -> BigUint {
    BigUint::parse_bytes(b"1a0111ea397fe69a4b1ba7b6434bacd764774b84f38512bf6730d2a0f6b0f6241eabfffeb153ffffb9feffffffffaaab", 16).unwrap()
}

fn compressed_from_x(x: &BigUint, flags: u8) -> [u8; 48] {
    let mut out = [0u8; 48];
    let b = x.to_bytes_be();
    out[48 - b.len()..].copy_from_slice(&b);
    out[0] |= flags;
    out
}

fn repr_of(b: &[u8; 48]) -> <G1Affine as GroupEncoding>::Repr {
    let mut r = <G1Affine as GroupEncoding>::Repr::default();
    r.as_mut().copy_from_slice(b);
    r
}

/// Crafted invalid / suspicious encodings of a group element (each must make the proof fail).
pub fn crafted_points() -> Vec<(&'static str, [u8; 48])> {
    let mut v = vec![];
    // x off the curve
    let mut x = BigUint::from(1u32);
    let off = loop {
        let enc = compressed_from_x(&x, 0x80);
        if bool::from(G1Affine::from_bytes_unchecked(&repr_of(&enc)).is_none()) {
            break enc;
        }
        x += 1u32;
    };
    v.push(("group->off-curve", off));
    // on the curve but outside the prime-order subgroup
    let mut x = BigUint::from(1u32);
    let (nonsub, small_x) = loop {
        let enc = compressed_from_x(&x, 0x80);
        let p: Option<G1Affine> = G1Affine::from_bytes_unchecked(&repr_of(&enc)).into();
        if let Some(p) = p {
            if !bool::from(p.is_torsion_free()) {
                break (enc, x.clone());
            }
        }
        x += 1u32;
    };
    v.push(("group->on-curve-not-in-subgroup", nonsub));
    // x >= p (non-canonical): p + x for an on-curve x
    v.push(("group->x>=p", compressed_from_x(&(p_modulus() + small_x), 0x80)));
    // compression flag cleared on a valid point
    let mut g = G1Affine::generator().to_bytes();
    g.as_mut()[0] &= 0x7f;
    let mut a = [0u8; 48];
    a.copy_from_slice(g.as_ref());
    v.push(("group->compression-flag-cleared", a));
    // infinity flag with a non-zero body
    let mut g = G1Affine::generator().to_bytes();
    g.as_mut()[0] |= 0x40;
    a.copy_from_slice(g.as_ref());
    v.push(("group->infinity-flag-with-body", a));
    v.push(("group->all-ff", [0xff; 48]));
    v
}

/// A non-trivial point of E(Fp) whose order divides the cofactor: [r]Q for the first small-x
/// curve point Q outside the prime-order subgroup, by double-and-add on the group law only
/// (scalar multiplication of the library assumes subgroup points). Adding it to a proof
/// element changes the bytes but not any pairing value, so only the decoder's subgroup test
/// stands between such a proof and acceptance.
pub fn torsion_point() -> G1Projective {
    let mut x = BigUint::from(1u32);
    let q: G1Affine = loop {
        let enc = compressed_from_x(&x, 0x80);
        let p: Option<G1Affine> = G1Affine::from_bytes_unchecked(&repr_of(&enc)).into();
        if let Some(p) = p {
            if !bool::from(p.is_torsion_free()) {
                break p;
            }
        }
        x += 1u32;
    };
    let r = scalar_modulus();
    let base = G1Projective::from(q);
    let mut acc = G1Projective::identity();
    for i in (0..r.bits()).rev() {
        acc = acc.double();
        if r.bit(i) {
            acc += base;
        }
    }
    acc
}

pub fn scalar_modulus() -> BigUint {
    BigUint::parse_bytes(F::MODULUS.trim_start_matches("0x").as_bytes(), 16).unwrap()
}

fn build_subject(cfg: &Config, seed: u64) -> Result<Subject, String> {
    let r = lattice::round(cfg, seed, false)?;
    let proof = r.proof.clone()?;
    if r.verdict != Some(Verdict::Accept) {
        return Err(format!("unmutated proof not accepted: {:?}", r.verdict));
    }
    let mut off = 0;
    let mut elements = vec![];
    for e in &r.prover_log {
        if e.kind == Kind::Write {
            elements.push((off, e.bytes.len(), e.ty));
            off += e.bytes.len();
        }
    }
    if off != proof.len() {
        return Err("element map does not cover the proof".into());
    }
    Ok(Subject {
        cfg: cfg.clone(),
        proof,
        committed: r.committed,
        plain: r.plain,
        elements,
    })
}

fn mutations(s: &Subject, thorough: bool, seed: u64, other_vks: &[(&'static str, FamParams, u32)]) -> Vec<(String, Mutation)> {
    let mut m: Vec<(String, Mutation)> = vec![("none".into(), Mutation::None)];
    let crafted = crafted_points();
    let r_mod = scalar_modulus();
    let torsion = torsion_point();
    for (i, (off, len, ty)) in s.elements.iter().enumerate() {
        let cur = &s.proof[*off..off + len];
        if *ty == 'G' {
            let mut repr = <G1Affine as GroupEncoding>::Repr::default();
            repr.as_mut().copy_from_slice(cur);
            let p: G1Affine = Option::from(G1Affine::from_bytes(&repr)).expect("proof element decodes");
            let pp = G1Projective::from(p);
            for (class, q) in [
                ("group->double", pp.double()),
                ("group->neg", -pp),
                ("group->identity", G1Projective::identity()),
                ("group->plus-generator", pp + G1Projective::generator()),
            ] {
                let bytes = q.to_affine().to_bytes().as_ref().to_vec();
                if bytes != cur {
                    m.push((format!("el{i}/{class}"), Mutation::Replace { off: *off, bytes, class }));
                }
            }
            for (class, enc) in &crafted {
                m.push((format!("el{i}/{class}"), Mutation::Replace { off: *off, bytes: enc.to_vec(), class }));
            }
            // the element shifted by a cofactor-torsion point: on the curve, outside the subgroup
            let shifted = (pp + torsion).to_affine().to_bytes().as_ref().to_vec();
            m.push((format!("el{i}/group->plus-torsion"), Mutation::Replace { off: *off, bytes: shifted, class: "group->plus-torsion" }));
        } else {
            let v = BigUint::from_bytes_le(cur);
            let enc = |x: &BigUint| {
                let mut b = x.to_bytes_le();
                b.resize(32, 0);
                b
            };
            m.push((format!("el{i}/scalar+1"), Mutation::Replace { off: *off, bytes: enc(&((&v + 1u32) % &r_mod)), class: "scalar+1" }));
            let nc = &v + &r_mod;
            if nc.bits() <= 256 {
                m.push((format!("el{i}/scalar+r"), Mutation::Replace { off: *off, bytes: enc(&nc), class: "scalar->noncanonical(s+r)" }));
            }
            m.push((format!("el{i}/scalar-ff"), Mutation::Replace { off: *off, bytes: vec![0xff; 32], class: "scalar->all-ff" }));
            let mut rng = vcore::rng_for(seed, &format!("c03-scalar-{i}"));
            let rnd = F::random(&mut rng);
            m.push((format!("el{i}/scalar-random"), Mutation::Replace { off: *off, bytes: rnd.to_repr().as_ref().to_vec(), class: "scalar->random" }));
        }
        m.push((format!("el{i}/truncate-at"), Mutation::Truncate { len: *off, class: "truncate-at-boundary" }));
        m.push((format!("el{i}/truncate-inside"), Mutation::Truncate { len: off + len / 2, class: "truncate-inside-element" }));
    }
    m.push(("truncate-last-byte".into(), Mutation::Truncate { len: s.proof.len() - 1, class: "truncate-inside-element" }));
    for n in [1usize, 32, 48] {
        m.push((format!("append-{n}"), Mutation::Append { n }));
    }
    if thorough {
        for bit in 0..s.proof.len() * 8 {
            m.push((format!("flip-{bit}"), Mutation::FlipBit { bit }));
        }
    } else {
        // quick: the first and last bit of every element
        for (off, len, _) in &s.elements {
            m.push((format!("flip-{}", off * 8), Mutation::FlipBit { bit: off * 8 }));
            m.push((format!("flip-{}", (off + len) * 8 - 1), Mutation::FlipBit { bit: (off + len) * 8 - 1 }));
        }
    }
    // public inputs
    for (p, cols) in s.plain.iter().enumerate() {
        for (c, col) in cols.iter().enumerate() {
            for row in 0..col.len() {
                m.push((format!("inst-p{p}-c{c}-r{row}+1"), Mutation::InstAdd1 { proof: p, col: c, row }));
            }
            for a in 0..col.len() {
                for b in a + 1..col.len() {
                    if col[a] != col[b] {
                        m.push((format!("inst-p{p}-c{c}-swap{a}-{b}"), Mutation::InstSwap { proof: p, col: c, a, b }));
                    }
                }
            }
            m.push((format!("inst-p{p}-c{c}-drop"), Mutation::InstDropLast { proof: p, col: c }));
            m.push((format!("inst-p{p}-c{c}-append0"), Mutation::InstAppend0 { proof: p, col: c }));
            for to in 0..cols.len() {
                if to != c {
                    m.push((format!("inst-p{p}-c{c}-move-to{to}"), Mutation::InstMove { proof: p, from: c, to }));
                }
            }
        }
        for c in 0..s.committed[p].len() {
            m.push((format!("committed-p{p}-c{c}"), Mutation::CommittedEdit { proof: p, col: c }));
        }
    }
    if s.plain.len() >= 2 && (s.plain[0] != s.plain[1] || s.committed[0] != s.committed[1]) {
        m.push(("inst-swap-proofs".into(), Mutation::InstSwapProofs));
    }
    for (class, p, k) in other_vks {
        m.push((format!("wrong-vk-{class}"), Mutation::WrongVk { class, p: p.clone(), k: *k }));
    }
    m.push(("wrong-hash".into(), Mutation::WrongHash));
    m
}

fn apply(s: &Subject, mu: &Mutation, seed: u64) -> Result<Option<Verdict>, String> {
    let mut proof = s.proof.clone();
    let mut committed = s.committed.clone();
    let mut plain = s.plain.clone();
    let mut cfg = s.cfg.clone();
    let mut hash = s.cfg.hash;
    match mu {
        Mutation::None => {}
        Mutation::Replace { off, bytes, .. } => proof[*off..off + bytes.len()].copy_from_slice(bytes),
        Mutation::Truncate { len, .. } => proof.truncate(*len),
        Mutation::Append { n } => proof.extend(std::iter::repeat(0u8).take(*n)),
        Mutation::FlipBit { bit } => proof[bit / 8] ^= 1 << (bit % 8),
        Mutation::InstAdd1 { proof: p, col, row } => plain[*p][*col][*row] += F::ONE,
        Mutation::InstSwap { proof: p, col, a, b } => plain[*p][*col].swap(*a, *b),
        Mutation::InstDropLast { proof: p, col } => {
            plain[*p][*col].pop();
        }
        Mutation::InstAppend0 { proof: p, col } => plain[*p][*col].push(F::ZERO),
        Mutation::InstMove { proof: p, from, to } => {
            let v = plain[*p][*from].pop().unwrap();
            plain[*p][*to].push(v);
        }
        Mutation::InstSwapProofs => {
            plain.swap(0, 1);
            committed.swap(0, 1);
        }
        Mutation::CommittedEdit { proof: p, col } => committed[*p][*col] = committed[*p][*col].double() + G1Projective::generator(),
        Mutation::WrongVk { p, k, .. } => {
            cfg.p = p.clone();
            cfg.k = *k;
        }
        Mutation::WrongHash => {
            hash = match hash {
                Hash::Blake2b => Hash::Poseidon,
                Hash::Poseidon => Hash::Blake2b,
            }
        }
    }
    if !matches!(mu, Mutation::None) && proof == s.proof && committed == s.committed && plain == s.plain && cfg == s.cfg && hash == s.cfg.hash {
        return Ok(None); // the mutation is the identity on this input
    }
    let (params, pk) = lattice::keys(&cfg.p, cfg.v1, cfg.k, seed)?;
    // always verify with the verifier parameters of the ORIGINAL srs size (a wrong-k key is a wrong key)
    let (orig_params, _) = lattice::keys(&s.cfg.p, s.cfg.v1, s.cfg.k, seed)?;
    let _ = params;
    Ok(Some(lattice::verify_with(hash, &orig_params, pk.get_vk(), &committed, &plain, &proof)))
}

fn main() {
    let mut cx = Ctx::from_args("C03", Level::FaultEnumeration);
    cx.worker_rayon_threads = Some(1);
    cx.set_rule(
        "proofs of a sub-lattice of Fam(p) (both hashes, with/without lookups, trash, committed \
         column, num_proofs 1..2, two circuit sizes) x {every group element -> 2P, -P, identity, P+G, \
         off-curve, non-subgroup, x>=p, bad flags; every scalar -> s+1, s+r (non-canonical), all-FF, \
         random; truncation at and inside every element; appended bytes; bit flips (all in thorough, \
         element edges in quick); every public input +1 / swap / drop-last / append-0 / move to \
         other column / swap proofs; committed commitment edited; wrong vk (other features, other k, \
         one fixed cell changed, other instance shape); wrong transcript hash}, each applied alone. \
         A case is non-trivial when the mutated input differs from the original (identity mutations \
         are skipped and not counted).",
    );
    cx.assume("every single mutation changes some absorbed value, so acceptance would need a Fiat-Shamir collision; 'rejected' = prepare/assert_empty/verify returned an error value");
    let seed = cx.seed;
    let thorough = cx.tier.is_thorough();

    let mk = |p: FamParams, np: usize, nb_c: usize, k: u32, hash: Hash| Config { p, v1: false, num_proofs: np, nb_committed: nb_c, k, hash, wit: Wit::Seeded(0) };
    let mut nolook = FamParams::rich(2, 2);
    nolook.lookup = false;
    nolook.lookup_any = false;
    nolook.trash = false;
    let mut cfgs = vec![
        mk(FamParams::rich(3, 2), 1, 0, 0, Hash::Blake2b),
        mk(FamParams::rich(1, 2), 2, 1, 0, Hash::Poseidon),
        mk(nolook.clone(), 1, 1, 7, Hash::Blake2b),
    ];
    if thorough {
        cfgs.extend([
            mk(FamParams::rich(3, 2), 1, 0, 0, Hash::Poseidon),
            mk(FamParams::rich(1, 2), 2, 1, 0, Hash::Blake2b),
            mk(nolook.clone(), 2, 0, 4, Hash::Poseidon),
            mk(FamParams::rich(2, 3), 1, 2, 7, Hash::Blake2b),
            mk(FamParams::rich(2, 1), 2, 0, 0, Hash::Blake2b),
            mk(FamParams::minimal(), 1, 0, 4, Hash::Blake2b),
            mk(FamParams::minimal(), 2, 0, 4, Hash::Poseidon),
            mk(FamParams::rich(1, 1), 1, 1, 0, Hash::Poseidon),
            mk(FamParams::rich(3, 3), 2, 1, 0, Hash::Blake2b),
        ]);
    }
    let mut subjects = vec![];
    for mut c in cfgs {
        let Some(kmin) = lattice::min_k(&c.p, false, seed) else { continue };
        c.k = c.k.max(kmin);
        match vcore::catch(|| build_subject(&c, seed)) {
            Ok(Ok(s)) => subjects.push(s),
            Ok(Err(e)) => cx.machinery_error(format!("cannot build subject {}: {e}", c.key())),
            Err(p) => cx.machinery_error(format!("panic building subject {}: {p}", c.key())),
        }
    }
    let mut cases: Vec<(String, (usize, Mutation))> = vec![];
    for (si, s) in subjects.iter().enumerate() {
        // wrong keys: other feature subset, other k, one fixed cell changed, other instance shape
        let mut other = s.cfg.p.clone();
        other.rot = !other.rot;
        let mut tweak = s.cfg.p.clone();
        tweak.fx_tweak = 1;
        let mut shape = s.cfg.p.clone();
        shape.gate_deg = if shape.gate_deg == 4 { 3 } else { 4 };
        let mut vks: Vec<(&'static str, FamParams, u32)> = vec![];
        for (class, p) in [("other-gates", other), ("one-fixed-cell-changed", tweak), ("other-gate-degree", shape)] {
            if let Some(k) = lattice::min_k(&p, false, seed) {
                vks.push((class, p, k.max(s.cfg.k)));
            }
        }
        vks.push(("other-k", s.cfg.p.clone(), s.cfg.k + 1));
        for (name, mu) in mutations(s, thorough, seed, &vks) {
            cases.push((format!("{}/{name}", s.cfg.key()), (si, mu)));
        }
    }
    cx.run_cases("mutations", &cases, |(si, mu)| {
        let s = &subjects[*si];
        let mut out = CaseOut::batch();
        let class = mu.class();
        match vcore::catch(|| apply(s, mu, seed)) {
            Err(p) => {
                out.eval("panic", true);
                out.viol(Viol::new(format!("panic:{class}:{}", vcore::panic_site(&p)), format!("verification panicked on a mutated input ({class}): {p}"), json!({"config": s.cfg.key()})));
            }
            Ok(Err(e)) => {
                out.eval("harness-error", false);
                out.viol(Viol::new("harness:error", e, json!({})));
            }
            Ok(Ok(None)) => {
                out.count("identity-mutation-skipped", 1);
            }
            Ok(Ok(Some(v))) => {
                let is_none = matches!(mu, Mutation::None);
                out.eval(&format!("{}:{}", if is_none { "original" } else { "mutated" }, v.name()), !is_none);
                out.counter(&format!("class:{class}"), 1);
                if is_none && !v.accepted() {
                    out.viol(Viol::new("harness:original-rejected", format!("the unmutated proof is rejected: {v:?}"), json!({"config": s.cfg.key()})));
                }
                if !is_none && v.accepted() {
                    out.viol(Viol::new(format!("accepted:{class}"), format!("a mutated input ({class}) was ACCEPTED"), json!({"config": s.cfg.key(), "mutation": format!("{mu:?}").chars().take(300).collect::<String>()})));
                }
                out.sample = Some(json!({"mutation": format!("{mu:?}").chars().take(160).collect::<String>(), "verdict": v.name()}));
            }
        }
        out
    });
    stdlib::run(&mut cx);
    let orig = cx.class_count("mutations:original:accept");
    cx.require(orig as usize == subjects.len() && orig > 0, "every unmutated proof must be accepted");
    for c in ["class:group->neg", "class:group->off-curve", "class:group->on-curve-not-in-subgroup", "class:group->plus-torsion", "class:scalar+1", "class:scalar->noncanonical(s+r)", "class:append-bytes", "class:instance+1", "class:committed-instance-edit", "class:wrong-vk:one-fixed-cell-changed", "class:wrong-vk:other-k", "class:wrong-transcript-hash", "class:instance-move-column"] {
        let n = cx.counter_value(c);
        cx.require(n > 0, &format!("mutation class {c} was never exercised"));
    }
    cx.finish()
}
