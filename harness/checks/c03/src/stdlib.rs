//! The same single-mutation enumeration through the standard library's own entry points:
//! `midnight_zk_stdlib::verify` and `midnight_zk_stdlib::batch_verify` (alone, and as the second
//! member of a batch whose first member is valid).

use ff::{Field, PrimeField};
use group::{Curve, Group, GroupEncoding};
use midnight_circuits::{
    hash::poseidon::{PoseidonChip, PoseidonState},
    instructions::{hash::HashCPU, ArithInstructions, AssertionInstructions, AssignmentInstructions, PublicInputInstructions},
    types::AssignedNative,
};
use midnight_curves::{Bls12, G1Affine, G1Projective};
use midnight_proofs::{
    circuit::{Layouter, Value},
    plonk::{prepare, Error},
    poly::kzg::KZGCommitmentScheme,
    transcript::{CircuitTranscript, Hashable, Sampleable, Transcript, TranscriptHash},
};
use midnight_zk_stdlib::{MidnightCircuit, MidnightVK, Relation, ZkStdLib, ZkStdLibArch};
use num_bigint::BigUint;
use rand_chacha::ChaCha20Rng;
use rand_core::SeedableRng;
use serde_json::json;
use vcore::{catch, panic_site, CaseOut, Ctx, Viol};
use vfam::rectrans::{self, Kind, RecordingTranscript};

type F = midnight_curves::Fq;

#[derive(Clone)]
pub struct RelSq {
    pub c: u64,
}
impl Relation for RelSq {
    type Instance = F;
    type Witness = F;
    fn format_instance(x: &F) -> Result<Vec<F>, Error> {
        Ok(vec![*x])
    }
    fn circuit(&self, s: &ZkStdLib, l: &mut impl Layouter<F>, inst: Value<F>, w: Value<F>) -> Result<(), Error> {
        let i: AssignedNative<F> = s.assign_as_public_input(l, inst)?;
        let w: AssignedNative<F> = s.assign(l, w)?;
        let sq = s.mul(l, &w, &w, None)?;
        let y = s.add_constant(l, &sq, F::from(self.c))?;
        s.assert_equal(l, &i, &y)
    }
    fn write_relation<W: std::io::Write>(&self, w: &mut W) -> std::io::Result<()> {
        w.write_all(&self.c.to_le_bytes())
    }
    fn read_relation<R: std::io::Read>(r: &mut R) -> std::io::Result<Self> {
        let mut b = [0u8; 8];
        r.read_exact(&mut b)?;
        Ok(RelSq { c: u64::from_le_bytes(b) })
    }
}

#[derive(Clone)]
pub struct RelPos;
impl Relation for RelPos {
    type Instance = F;
    type Witness = [F; 2];
    fn format_instance(x: &F) -> Result<Vec<F>, Error> {
        Ok(vec![*x])
    }
    fn circuit(&self, s: &ZkStdLib, l: &mut impl Layouter<F>, inst: Value<F>, w: Value<[F; 2]>) -> Result<(), Error> {
        let i: AssignedNative<F> = s.assign_as_public_input(l, inst)?;
        let m: Vec<AssignedNative<F>> = s.assign_many(l, &w.transpose_array())?;
        let h = s.poseidon(l, &m)?;
        s.assert_equal(l, &i, &h)
    }
    fn used_chips(&self) -> ZkStdLibArch {
        ZkStdLibArch {
            poseidon: true,
            ..ZkStdLibArch::default()
        }
    }
    fn write_relation<W: std::io::Write>(&self, _: &mut W) -> std::io::Result<()> {
        Ok(())
    }
    fn read_relation<R: std::io::Read>(_: &mut R) -> std::io::Result<Self> {
        Ok(RelPos)
    }
}

#[derive(Clone, Debug)]
enum Mu {
    None,
    Replace { off: usize, bytes: Vec<u8>, class: &'static str },
    Truncate { len: usize, class: &'static str },
    Append(usize),
    Flip(usize),
    PiAdd1,
    PiDrop,
    PiAppend0,
    WrongVk,
}

impl Mu {
    fn class(&self) -> String {
        match self {
            Mu::None => "none".into(),
            Mu::Replace { class, .. } | Mu::Truncate { class, .. } => class.to_string(),
            Mu::Append(_) => "append-bytes".into(),
            Mu::Flip(_) => "bit-flip".into(),
            Mu::PiAdd1 => "instance+1".into(),
            Mu::PiDrop => "instance-drop-last".into(),
            Mu::PiAppend0 => "instance-append-0".into(),
            Mu::WrongVk => "wrong-vk:other-relation".into(),
        }
    }
}

struct Subj {
    name: String,
    vk: MidnightVK,
    other_vk: MidnightVK,
    pi: Vec<F>,
    proof: Vec<u8>,
    elements: Vec<(usize, usize, char)>,
    /// a valid (vk, pi, proof) of another statement, used as the first member of 2-batches
    companion: (MidnightVK, Vec<F>, Vec<u8>),
}

fn element_map<H: TranscriptHash>(vk: &MidnightVK, pi: &[F], proof: &[u8]) -> Vec<(usize, usize, char)>
where
    G1Projective: Hashable<H>,
    F: Hashable<H> + Sampleable<H>,
{
    let log = rectrans::new_log();
    let mut t = RecordingTranscript::<CircuitTranscript<H>>::init_from_bytes(proof);
    let _ = prepare::<F, KZGCommitmentScheme<Bls12>, _>(vk.vk(), &[&[G1Projective::identity()]], &[&[pi]], &mut t);
    let mut off = 0;
    let mut v = vec![];
    for e in log.lock().unwrap().iter() {
        if e.kind == Kind::Read {
            v.push((off, e.bytes.len(), e.ty));
            off += e.bytes.len();
        }
    }
    v
}

fn mutations(s: &Subj, thorough: bool, seed: u64) -> Vec<(String, Mu)> {
    let mut m = vec![("none".to_string(), Mu::None)];
    let crafted = crate::crafted_points();
    let r_mod = crate::scalar_modulus();
    for (i, (off, len, ty)) in s.elements.iter().enumerate() {
        let cur = &s.proof[*off..off + len];
        if *ty == 'G' {
            let mut repr = <G1Affine as GroupEncoding>::Repr::default();
            repr.as_mut().copy_from_slice(cur);
            let p: G1Affine = Option::from(G1Affine::from_bytes(&repr)).expect("proof element decodes");
            let pp = G1Projective::from(p);
            for (class, q) in [("group->double", pp.double()), ("group->neg", -pp), ("group->identity", G1Projective::identity()), ("group->plus-generator", pp + G1Projective::generator())] {
                let bytes = q.to_affine().to_bytes().as_ref().to_vec();
                if bytes != cur {
                    m.push((format!("el{i}/{class}"), Mu::Replace { off: *off, bytes, class }));
                }
            }
            for (class, enc) in &crafted {
                m.push((format!("el{i}/{class}"), Mu::Replace { off: *off, bytes: enc.to_vec(), class }));
            }
        } else {
            let v = BigUint::from_bytes_le(cur);
            let enc = |x: &BigUint| {
                let mut b = x.to_bytes_le();
                b.resize(32, 0);
                b
            };
            m.push((format!("el{i}/scalar+1"), Mu::Replace { off: *off, bytes: enc(&((&v + 1u32) % &r_mod)), class: "scalar+1" }));
            m.push((format!("el{i}/scalar+r"), Mu::Replace { off: *off, bytes: enc(&(&v + &r_mod)), class: "scalar->noncanonical(s+r)" }));
            m.push((format!("el{i}/scalar-ff"), Mu::Replace { off: *off, bytes: vec![0xff; 32], class: "scalar->all-ff" }));
            let rnd = F::random(vcore::rng_for(seed, &format!("c03-std-{i}")));
            m.push((format!("el{i}/scalar-random"), Mu::Replace { off: *off, bytes: rnd.to_repr().as_ref().to_vec(), class: "scalar->random" }));
        }
        m.push((format!("el{i}/truncate-at"), Mu::Truncate { len: *off, class: "truncate-at-boundary" }));
        m.push((format!("el{i}/truncate-inside"), Mu::Truncate { len: off + len / 2, class: "truncate-inside-element" }));
    }
    for n in [1usize, 2, 32, 48] {
        m.push((format!("append-{n}"), Mu::Append(n)));
    }
    if thorough {
        for bit in 0..s.proof.len() * 8 {
            m.push((format!("flip-{bit}"), Mu::Flip(bit)));
        }
    } else {
        for (off, len, _) in &s.elements {
            m.push((format!("flip-{}", off * 8), Mu::Flip(off * 8)));
            m.push((format!("flip-{}", (off + len) * 8 - 1), Mu::Flip((off + len) * 8 - 1)));
        }
    }
    m.push(("pi+1".into(), Mu::PiAdd1));
    m.push(("pi-drop".into(), Mu::PiDrop));
    m.push(("pi-append0".into(), Mu::PiAppend0));
    m.push(("wrong-vk".into(), Mu::WrongVk));
    m
}

/// Returns (verify, batch of one, second member of a batch of two) — each Some(accepted).
fn apply<H: TranscriptHash, R: Relation<Instance = F>>(s: &Subj, mu: &Mu, vparams: &vfam::api::VParams) -> (Option<bool>, bool, bool)
where
    G1Projective: Hashable<H>,
    F: Hashable<H> + Sampleable<H>,
{
    let mut proof = s.proof.clone();
    let mut pi = s.pi.clone();
    let mut vk = s.vk.clone();
    match mu {
        Mu::None => {}
        Mu::Replace { off, bytes, .. } => proof[*off..off + bytes.len()].copy_from_slice(bytes),
        Mu::Truncate { len, .. } => proof.truncate(*len),
        Mu::Append(n) => proof.extend(std::iter::repeat(0u8).take(*n)),
        Mu::Flip(bit) => proof[bit / 8] ^= 1 << (bit % 8),
        Mu::PiAdd1 => pi[0] += F::ONE,
        Mu::PiDrop => {
            pi.pop();
        }
        Mu::PiAppend0 => pi.push(F::ZERO),
        Mu::WrongVk => vk = s.other_vk.clone(),
    }
    // the typed entry point can only express statements with exactly one public input
    let single = if pi.len() == 1 { Some(midnight_zk_stdlib::verify::<R, H>(vparams, &vk, &pi[0], None, &proof).is_ok()) } else { None };
    let b1 = midnight_zk_stdlib::batch_verify::<H>(vparams, &[vk.clone()], &[pi.clone()], &[proof.clone()]).is_ok();
    let b2 = midnight_zk_stdlib::batch_verify::<H>(vparams, &[s.companion.0.clone(), vk], &[s.companion.1.clone(), pi], &[s.companion.2.clone(), proof]).is_ok();
    (single, b1, b2)
}

fn one_hash<H: TranscriptHash + 'static>(cx: &mut Ctx, hname: &'static str)
where
    G1Projective: Hashable<H>,
    F: Hashable<H> + Sampleable<H>,
{
    let seed = cx.seed;
    let thorough = cx.tier.is_thorough();
    let rel_a = RelSq { c: 5 };
    let rel_b = RelPos;
    let ka = MidnightCircuit::from_relation(&rel_a).min_k();
    let kb = MidnightCircuit::from_relation(&rel_b).min_k();
    let srs_a = (*vfam::api::setup(ka, seed)).clone();
    let srs_b = (*vfam::api::setup(kb, seed)).clone();
    let vparams = srs_a.verifier_params();
    let vk_a = midnight_zk_stdlib::setup_vk(&srs_a, &rel_a);
    let pk_a = midnight_zk_stdlib::setup_pk(&rel_a, &vk_a);
    let vk_b = midnight_zk_stdlib::setup_vk(&srs_b, &rel_b);
    let pk_b = midnight_zk_stdlib::setup_pk(&rel_b, &vk_b);
    let (w1, w2) = (F::from(3), F::from(11));
    let (x1, x2) = (w1 * w1 + F::from(5), w2 * w2 + F::from(5));
    let wb = [F::from(7), F::from(9)];
    let xb = <PoseidonChip<F> as HashCPU<F, F>>::hash(&wb);
    let pa1 = midnight_zk_stdlib::prove::<RelSq, H>(&srs_a, &pk_a, &rel_a, &x1, w1, ChaCha20Rng::seed_from_u64(1)).expect("prove");
    let pa2 = midnight_zk_stdlib::prove::<RelSq, H>(&srs_a, &pk_a, &rel_a, &x2, w2, ChaCha20Rng::seed_from_u64(2)).expect("prove");
    let pb = midnight_zk_stdlib::prove::<RelPos, H>(&srs_b, &pk_b, &rel_b, &xb, wb, ChaCha20Rng::seed_from_u64(3)).expect("prove");
    let sa = Subj {
        name: format!("std-RelSq-{hname}"),
        vk: vk_a.clone(),
        other_vk: vk_b.clone(),
        pi: vec![x1],
        elements: element_map::<H>(&vk_a, &[x1], &pa1),
        proof: pa1,
        companion: (vk_a.clone(), vec![x2], pa2.clone()),
    };
    let sb = Subj {
        name: format!("std-RelPos-{hname}"),
        vk: vk_b.clone(),
        other_vk: vk_a.clone(),
        pi: vec![xb],
        elements: element_map::<H>(&vk_b, &[xb], &pb),
        proof: pb,
        companion: (vk_a.clone(), vec![x2], pa2),
    };
    for (s, is_a) in [(sa, true), (sb, false)] {
        let covered: usize = s.elements.iter().map(|e| e.1).sum();
        cx.require(covered == s.proof.len(), "std-lib proof element map does not cover the proof");
        let cases: Vec<(String, Mu)> = mutations(&s, thorough, seed).into_iter().map(|(k, m)| (format!("{}/{k}", s.name), m)).collect();
        cx.run_cases(&format!("stdlib-{}", s.name), &cases, |mu| {
            let mut out = CaseOut::batch();
            let class = mu.class();
            let r = catch(|| if is_a { apply::<H, RelSq>(&s, mu, &vparams) } else { apply::<H, RelPos>(&s, mu, &vparams) });
            match r {
                Err(p) => {
                    out.eval("panic", true);
                    out.viol(Viol::new(format!("stdlib:panic:{class}:{}", panic_site(&p)), format!("std-lib verification panicked on a mutated input ({class}): {p}"), json!({"subject": s.name})));
                }
                Ok((single, b1, b2)) => {
                    let is_none = matches!(mu, Mu::None);
                    for (entry, got) in [("verify", single), ("batch_verify[1]", Some(b1)), ("batch_verify[valid,this]", Some(b2))] {
                        let Some(got) = got else { continue };
                        out.eval(&format!("{}:{}", if is_none { "original" } else { "mutated" }, if got { "accept" } else { "reject" }), !is_none);
                        out.counter(&format!("stdclass:{class}"), 1);
                        if is_none && !got {
                            out.viol(Viol::new("harness:stdlib-original-rejected", format!("{entry} rejects the unmutated std-lib proof"), json!({"subject": s.name})));
                        }
                        if !is_none && got {
                            out.viol(Viol::new(format!("stdlib:{entry}:accepted:{class}"), format!("{entry} ACCEPTED a mutated input ({class})"), json!({"subject": s.name, "mutation": format!("{mu:?}").chars().take(200).collect::<String>()})));
                        }
                    }
                }
            }
            out
        });
    }
}

pub fn run(cx: &mut Ctx) {
    one_hash::<blake2b_simd::State>(cx, "Blake2b");
    one_hash::<PoseidonState<F>>(cx, "Poseidon");
}
