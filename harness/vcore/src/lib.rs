//! vcore — shared machinery of the bounded-exhaustive checks.
//!
//! * deterministic enumeration runner (16 OS worker threads, results collected by case index)
//! * panic capture (a panic of the subject is a classified outcome, never a crash of the checker)
//! * evidence writer (counts are measured by the run), replay artefacts, known-findings matching
//! * exit codes: 0 = held on everything explored, 1 = violation (with VIOLATION line),
//!   2 = machinery error (no verdict).
//!
//! A *case* is identified by a canonical string key that is unique within one check. The key
//! is what `distinct_nontrivial` counts, what a replay file names, and — through the check's own
//! mapping from a failing case to a *finding key* — what KNOWN_FINDINGS.txt lists.

pub mod big;

use std::{
    collections::{BTreeMap, BTreeSet, HashSet},
    panic::{catch_unwind, AssertUnwindSafe},
    path::{Path, PathBuf},
    sync::{
        atomic::{AtomicBool, AtomicUsize, Ordering},
        Mutex,
    },
    time::{Duration, Instant},
};

use rand_chacha::ChaCha20Rng;
use rand_core::SeedableRng;
use serde_json::{json, Value};

pub const VERIF_ROOT: &str = "/verif";

/// Root for evidence / replays / known findings. Overridable for mutation sandboxes
/// (`tools/mutrun.sh`), which must not overwrite the real evidence.
pub fn verif_root() -> std::path::PathBuf {
    std::env::var("VERIF_ROOT_OVERRIDE").map(std::path::PathBuf::from).unwrap_or_else(|_| std::path::PathBuf::from(VERIF_ROOT))
}

#[derive(Clone, Copy, Debug, PartialEq, Eq)]
pub enum Tier {
    Quick,
    Thorough,
}

impl Tier {
    pub fn name(self) -> &'static str {
        match self {
            Tier::Quick => "quick",
            Tier::Thorough => "thorough",
        }
    }
    pub fn is_thorough(self) -> bool {
        self == Tier::Thorough
    }
    /// `q` in the quick tier, `t` in the thorough tier.
    pub fn pick<T>(self, q: T, t: T) -> T {
        match self {
            Tier::Quick => q,
            Tier::Thorough => t,
        }
    }
}

#[derive(Clone, Copy, Debug, PartialEq, Eq)]
pub enum Level {
    Exploration,
    FaultEnumeration,
    ModelChecking,
}

impl Level {
    fn name(self) -> &'static str {
        match self {
            Level::Exploration => "exploration",
            Level::FaultEnumeration => "fault_enumeration",
            Level::ModelChecking => "model_checking",
        }
    }
}

// ---------------------------------------------------------------------------------------------
// Panic capture
// ---------------------------------------------------------------------------------------------

thread_local! {
    static LAST_PANIC: std::cell::RefCell<Option<String>> = const { std::cell::RefCell::new(None) };
    static CATCH_DEPTH: std::cell::Cell<u32> = const { std::cell::Cell::new(0) };
}

static HOOK_INSTALLED: AtomicBool = AtomicBool::new(false);

/// Installs a silent panic hook that records message and location in a thread-local.
pub fn install_panic_hook() {
    if HOOK_INSTALLED.swap(true, Ordering::SeqCst) {
        return;
    }
    std::panic::set_hook(Box::new(|info| {
        let msg = if let Some(s) = info.payload().downcast_ref::<&str>() {
            s.to_string()
        } else if let Some(s) = info.payload().downcast_ref::<String>() {
            s.clone()
        } else {
            "<non-string panic payload>".to_string()
        };
        let loc = info
            .location()
            .map(|l| format!("{}:{}", l.file(), l.line()))
            .unwrap_or_else(|| "<unknown>".into());
        let mut m = format!("{msg} @ {loc}");
        if m.len() > 400 {
            m.truncate(400);
        }
        if CATCH_DEPTH.with(|d| d.get()) == 0 {
            eprintln!("MACHINERY-ERROR panic outside a guarded case: {m}");
        }
        LAST_PANIC.with(|p| *p.borrow_mut() = Some(m));
    }));
}

/// Runs `f`, turning a panic into `Err(message @ file:line)`.
pub fn catch<T>(f: impl FnOnce() -> T) -> Result<T, String> {
    install_panic_hook();
    LAST_PANIC.with(|p| *p.borrow_mut() = None);
    CATCH_DEPTH.with(|d| d.set(d.get() + 1));
    let r = catch_unwind(AssertUnwindSafe(f));
    CATCH_DEPTH.with(|d| d.set(d.get() - 1));
    match r {
        Ok(v) => Ok(v),
        Err(_) => Err(LAST_PANIC
            .with(|p| p.borrow_mut().take())
            .unwrap_or_else(|| "<panic on another thread>".into())),
    }
}

/// Strips the ` @ file:line` suffix and digits, to make a stable class of a panic message.
pub fn panic_site(msg: &str) -> String {
    match msg.rfind(" @ ") {
        Some(i) => {
            let loc = &msg[i + 3..];
            // keep the file (relative to the repository), drop the line number
            let file = loc.rsplit_once(':').map(|x| x.0).unwrap_or(loc);
            file.trim_start_matches("/repo/").to_string()
        }
        None => "<unknown>".into(),
    }
}

// ---------------------------------------------------------------------------------------------
// Case results
// ---------------------------------------------------------------------------------------------

/// A property violation observed in one case.
#[derive(Clone, Debug)]
pub struct Viol {
    /// Canonical description of the failing *input class* (no line numbers); matched against
    /// KNOWN_FINDINGS.txt.
    pub finding_key: String,
    /// Human-readable account of what failed.
    pub what: String,
    /// Anything that helps rebuild the case by hand (operands in hex, mutation, configuration).
    pub detail: Value,
}

impl Viol {
    pub fn new(finding_key: impl Into<String>, what: impl Into<String>, detail: Value) -> Self {
        Viol {
            finding_key: finding_key.into(),
            what: what.into(),
            detail,
        }
    }
}

/// Result of executing one case (which may be a batch of `evals` elementary evaluations).
#[derive(Clone, Debug, Default)]
pub struct CaseOut {
    pub evals: u64,
    /// Number of distinct non-trivial elementary cases inside this case (the case keys are
    /// unique, so these add up across cases).
    pub distinct_nontrivial: u64,
    /// Observed outcome classes with multiplicities, e.g. ("sat",1) or ("reject",37).
    pub classes: Vec<(String, u64)>,
    /// Optional full description of (a member of) the case for the evidence `samples` list.
    pub sample: Option<Value>,
    pub viols: Vec<Viol>,
    /// Extra named counters to sum into coverage.
    pub counters: Vec<(String, u64)>,
}

impl CaseOut {
    pub fn one(class: impl Into<String>, nontrivial: bool) -> Self {
        CaseOut {
            evals: 1,
            distinct_nontrivial: nontrivial as u64,
            classes: vec![(class.into(), 1)],
            ..Default::default()
        }
    }
    pub fn batch() -> Self {
        CaseOut::default()
    }
    pub fn with_sample(mut self, v: Value) -> Self {
        self.sample = Some(v);
        self
    }
    pub fn with_viol(mut self, v: Viol) -> Self {
        self.viols.push(v);
        self
    }
    pub fn count(&mut self, class: &str, n: u64) {
        if let Some(c) = self.classes.iter_mut().find(|c| c.0 == class) {
            c.1 += n;
        } else {
            self.classes.push((class.to_string(), n));
        }
    }
    pub fn counter(&mut self, name: &str, n: u64) {
        if let Some(c) = self.counters.iter_mut().find(|c| c.0 == name) {
            c.1 += n;
        } else {
            self.counters.push((name.to_string(), n));
        }
    }
    /// Records one elementary evaluation.
    pub fn eval(&mut self, class: &str, nontrivial: bool) {
        self.evals += 1;
        self.distinct_nontrivial += nontrivial as u64;
        self.count(class, 1);
    }
    pub fn viol(&mut self, v: Viol) {
        // keep at most a few per case and per finding key: one is enough to decide
        if self.viols.iter().filter(|x| x.finding_key == v.finding_key).count() < 2
            && self.viols.len() < 16
        {
            self.viols.push(v);
        }
    }
}

// ---------------------------------------------------------------------------------------------
// Known findings
// ---------------------------------------------------------------------------------------------

#[derive(Clone, Debug)]
pub struct KnownFinding {
    pub property: String,
    pub key: String,
    pub text: String,
}

fn load_known_findings(path: &Path) -> Vec<KnownFinding> {
    let mut out = vec![];
    let Ok(s) = std::fs::read_to_string(path) else {
        return out;
    };
    for line in s.lines() {
        let line = line.trim();
        // only `finding:` lines suppress; `fixed:` lines are documentation
        let Some(rest) = line.strip_prefix("finding:") else {
            continue;
        };
        let rest = rest.trim();
        let mut property = String::new();
        let mut key = String::new();
        let mut text = String::new();
        for (i, tok) in rest.splitn(3, ' ').enumerate() {
            match i {
                0 => property = tok.strip_prefix("property=").unwrap_or("").to_string(),
                1 => key = tok.strip_prefix("key=").unwrap_or("").to_string(),
                _ => text = tok.to_string(),
            }
        }
        if !property.is_empty() && !key.is_empty() {
            out.push(KnownFinding {
                property,
                key,
                text,
            });
        }
    }
    out
}

// ---------------------------------------------------------------------------------------------
// The run context
// ---------------------------------------------------------------------------------------------

pub struct Ctx {
    pub prop: String,
    pub tier: Tier,
    pub seed: u64,
    pub level: Level,
    start: Instant,
    /// wall-clock budget for the enumeration (caps are reported, never silent)
    deadline: Option<Instant>,
    replay_key: Option<String>,
    pub workers: usize,
    /// If set, every worker thread runs its cases inside its own rayon pool of that many
    /// threads (so `par_iter`s of the subject neither share one global pool nor oversubscribe).
    pub worker_rayon_threads: Option<usize>,

    evaluations: u64,
    distinct_nontrivial: u64,
    seen_keys: HashSet<String>,
    classes: BTreeMap<String, u64>,
    counters: BTreeMap<String, u64>,
    samples: Vec<Value>,
    samples_per_group: BTreeMap<String, usize>,
    groups: BTreeMap<String, Value>,
    viols: Vec<(String, String, Viol)>, // (group, case key, viol)
    caps: Vec<String>,
    notes: Vec<String>,
    assumptions: Vec<String>,
    rule: String,
    extra: BTreeMap<String, Value>,
    known: Vec<KnownFinding>,
    machinery_errors: Vec<String>,
    selfcheck_failures: Vec<String>,
    group_share_s: Option<f64>,
    budget_explicit: bool,
    pub states: u64,
    pub transitions: u64,
    pub traces_validated: u64,
}

pub fn usage_exit() -> ! {
    eprintln!("usage: <check> [--tier quick|thorough] [--replay <file>] [--budget-s <secs>]");
    std::process::exit(2)
}

impl Ctx {
    pub fn from_args(prop: &str, level: Level) -> Ctx {
        install_panic_hook();
        let args: Vec<String> = std::env::args().collect();
        let mut tier = match std::env::var("VERIF_TIER").as_deref() {
            Ok("thorough") => Tier::Thorough,
            _ => Tier::Quick,
        };
        let mut replay: Option<String> = None;
        let mut budget: Option<u64> = None;
        let mut i = 1;
        while i < args.len() {
            match args[i].as_str() {
                "--tier" => {
                    i += 1;
                    tier = match args.get(i).map(|s| s.as_str()) {
                        Some("quick") => Tier::Quick,
                        Some("thorough") => Tier::Thorough,
                        _ => usage_exit(),
                    }
                }
                "--replay" => {
                    i += 1;
                    replay = Some(args.get(i).cloned().unwrap_or_else(|| usage_exit()));
                }
                "--budget-s" => {
                    i += 1;
                    budget = args.get(i).and_then(|s| s.parse().ok());
                }
                _ => usage_exit(),
            }
            i += 1;
        }
        let mut seed: u64 =
            std::env::var("VERIF_SEED").ok().and_then(|s| s.trim().parse().ok()).unwrap_or(0);
        let mut replay_key = None;
        if let Some(path) = replay {
            let txt = std::fs::read_to_string(&path).unwrap_or_else(|e| {
                eprintln!("cannot read replay file {path}: {e}");
                std::process::exit(2)
            });
            let v: Value = serde_json::from_str(&txt).unwrap_or_else(|e| {
                eprintln!("bad replay file {path}: {e}");
                std::process::exit(2)
            });
            replay_key = Some(v["case_key"].as_str().unwrap_or("").to_string());
            if let Some(s) = v["seed"].as_u64() {
                seed = s;
            }
            if v["tier"].as_str() == Some("thorough") {
                tier = Tier::Thorough;
            } else if v["tier"].as_str() == Some("quick") {
                tier = Tier::Quick;
            }
        }
        let default_budget = match tier {
            Tier::Quick => 55,
            Tier::Thorough => 1800,
        };
        let budget_opt = budget.or_else(|| std::env::var("VERIF_BUDGET_S").ok().and_then(|s| s.parse().ok()));
        let budget_explicit = budget_opt.is_some();
        let budget = budget_opt.unwrap_or(default_budget);
        let start = Instant::now();
        Ctx {
            prop: prop.to_string(),
            tier,
            seed,
            level,
            start,
            deadline: Some(start + Duration::from_secs(budget)),
            replay_key,
            workers: std::thread::available_parallelism().map(|n| n.get()).unwrap_or(8).min(16),
            worker_rayon_threads: None,
            evaluations: 0,
            distinct_nontrivial: 0,
            seen_keys: HashSet::new(),
            classes: BTreeMap::new(),
            counters: BTreeMap::new(),
            samples: vec![],
            samples_per_group: BTreeMap::new(),
            groups: BTreeMap::new(),
            viols: vec![],
            caps: vec![],
            notes: vec![],
            assumptions: vec![],
            rule: String::new(),
            extra: BTreeMap::new(),
            known: load_known_findings(&Path::new(VERIF_ROOT).join("KNOWN_FINDINGS.txt")),
            machinery_errors: vec![],
            selfcheck_failures: vec![],
            group_share_s: None,
            budget_explicit,
            states: 0,
            transitions: 0,
            traces_validated: 0,
        }
    }

    pub fn is_replay(&self) -> bool {
        self.replay_key.is_some()
    }

    pub fn elapsed_s(&self) -> f64 {
        self.start.elapsed().as_secs_f64()
    }

    /// Seconds left in the wall budget.
    /// A check whose thorough tier needs more than the default wall budget asks for it here; an
    /// explicit `--budget-s` / VERIF_BUDGET_S always wins.
    pub fn thorough_budget(&mut self, secs: u64) {
        if self.tier == Tier::Thorough && !self.budget_explicit && !self.is_replay() {
            self.deadline = Some(self.start + Duration::from_secs(secs));
        }
    }

    /// Limits the wall time of the next `run_cases` group to `share_s` seconds (or to what is
    /// left of the run's budget, whichever is less); a group cut short prints its CAP line.
    pub fn next_group_share(&mut self, share_s: f64) {
        self.group_share_s = Some(share_s);
    }

    pub fn remaining_s(&self) -> f64 {
        match self.deadline {
            Some(d) => d.saturating_duration_since(Instant::now()).as_secs_f64(),
            None => f64::INFINITY,
        }
    }

    /// Deterministic RNG for alphabet representatives; `stream` separates uses.
    pub fn rng(&self, stream: &str) -> ChaCha20Rng {
        rng_for(self.seed, stream)
    }

    pub fn set_rule(&mut self, rule: &str) {
        self.rule = rule.to_string();
    }
    pub fn assume(&mut self, a: &str) {
        if !self.assumptions.iter().any(|x| x == a) {
            self.assumptions.push(a.to_string());
        }
    }
    pub fn note(&mut self, n: impl Into<String>) {
        self.notes.push(n.into());
    }
    pub fn extra(&mut self, k: &str, v: Value) {
        self.extra.insert(k.to_string(), v);
    }
    pub fn add_counter(&mut self, k: &str, n: u64) {
        *self.counters.entry(k.to_string()).or_default() += n;
    }
    pub fn cap(&mut self, c: impl Into<String>) {
        self.caps.push(c.into());
    }
    pub fn class_count(&self, class: &str) -> u64 {
        self.classes.get(class).copied().unwrap_or(0)
    }
    pub fn counter_value(&self, k: &str) -> u64 {
        self.counters.get(k).copied().unwrap_or(0)
    }

    /// Records a machinery failure: the run will exit 2 without a verdict.
    pub fn machinery_error(&mut self, e: impl Into<String>) {
        let e = e.into();
        eprintln!("MACHINERY-ERROR property={} {}", self.prop, e);
        self.machinery_errors.push(e);
    }

    /// Anti-vacuity / self-check assertion of the harness itself.
    pub fn require(&mut self, cond: bool, what: &str) {
        if !cond && !self.is_replay() {
            let e = format!("self-check failed: {what}");
            eprintln!("MACHINERY-ERROR property={} {}", self.prop, e);
            self.selfcheck_failures.push(e);
        }
    }

    /// Records a violation found outside `run_cases` (e.g. by an explicit-state search).
    pub fn report_violation(&mut self, group: &str, case_key: &str, v: Viol) {
        self.viols.push((group.to_string(), case_key.to_string(), v));
    }

    /// Adds one sample to the evidence (bounded).
    pub fn sample(&mut self, group: &str, v: Value) {
        let n = self.samples_per_group.entry(group.to_string()).or_default();
        if *n < 3 && self.samples.len() < 60 {
            *n += 1;
            self.samples.push(json!({"group": group, "case": v}));
        }
    }

    /// Records a single evaluation done inline by the check (outside `run_cases`).
    pub fn record(&mut self, group: &str, key: &str, out: CaseOut) {
        let full_key = format!("{group}/{key}");
        self.absorb(group, &full_key, out);
    }

    fn absorb(&mut self, group: &str, full_key: &str, out: CaseOut) {
        if !self.seen_keys.insert(full_key.to_string()) {
            self.machinery_error(format!("duplicate case key {full_key}"));
        }
        self.evaluations += out.evals;
        self.distinct_nontrivial += out.distinct_nontrivial;
        for (c, n) in out.classes {
            *self.classes.entry(format!("{group}:{c}")).or_default() += n;
        }
        for (c, n) in out.counters {
            *self.counters.entry(c).or_default() += n;
        }
        if let Some(s) = out.sample {
            self.sample(group, json!({"key": full_key, "detail": s}));
        }
        for v in out.viols {
            self.viols.push((group.to_string(), full_key.to_string(), v));
        }
    }

    /// Runs every case of `cases` (all of them, in a deterministic order of *results*) on the
    /// worker pool. `f` must be a pure function of the case. A panic inside `f` is a machinery
    /// error (subject panics must be caught by the case body with [`catch`] and classified).
    pub fn run_cases<C: Sync, F>(&mut self, group: &str, cases: &[(String, C)], f: F)
    where
        F: Fn(&C) -> CaseOut + Sync,
    {
        self.run_cases_with(group, cases, self.workers, f)
    }

    pub fn run_cases_with<C: Sync, F>(
        &mut self,
        group: &str,
        cases: &[(String, C)],
        workers: usize,
        f: F,
    ) where
        F: Fn(&C) -> CaseOut + Sync,
    {
        let t0 = Instant::now();
        let selected: Vec<usize> = match &self.replay_key {
            Some(k) => cases
                .iter()
                .enumerate()
                .filter(|(_, c)| &format!("{group}/{}", c.0) == k)
                .map(|(i, _)| i)
                .collect(),
            None => (0..cases.len()).collect(),
        };
        let n = selected.len();
        let results: Vec<Mutex<Option<Result<CaseOut, String>>>> =
            (0..n).map(|_| Mutex::new(None)).collect();
        let cursor = AtomicUsize::new(0);
        let mut deadline = if self.is_replay() { None } else { self.deadline };
        // an optional wall share for this group only (consumed by this call)
        if let (Some(share), false) = (self.group_share_s.take(), self.is_replay()) {
            let g = Instant::now() + Duration::from_secs_f64(share);
            deadline = Some(match deadline {
                Some(d) if d < g => d,
                _ => g,
            });
        }
        let capped = AtomicBool::new(false);
        let workers = workers.max(1).min(n.max(1));
        let pool_threads = self.worker_rayon_threads;
        std::thread::scope(|scope| {
            for _ in 0..workers {
                scope.spawn(|| {
                    let body = || loop {
                        let i = cursor.fetch_add(1, Ordering::SeqCst);
                        if i >= n {
                            break;
                        }
                        if let Some(d) = deadline {
                            if Instant::now() > d {
                                capped.store(true, Ordering::SeqCst);
                                break;
                            }
                        }
                        let case = &cases[selected[i]].1;
                        let r = catch(|| f(case));
                        *results[i].lock().unwrap() = Some(r);
                    };
                    match pool_threads {
                        Some(t) => rayon::ThreadPoolBuilder::new()
                            .num_threads(t)
                            .build()
                            .expect("rayon pool")
                            .install(body),
                        None => body(),
                    }
                });
            }
        });
        let mut done = 0usize;
        let mut first_skipped: Option<usize> = None;
        for (i, slot) in results.into_iter().enumerate() {
            let idx = selected[i];
            let key = format!("{group}/{}", cases[idx].0);
            match slot.into_inner().unwrap() {
                None => {
                    if first_skipped.is_none() {
                        first_skipped = Some(i);
                    }
                }
                Some(Err(p)) => {
                    self.machinery_error(format!("case {key} panicked inside the harness: {p}"))
                }
                Some(Ok(mut out)) => {
                    done += 1;
                    // re-execute once before believing a violation
                    if !out.viols.is_empty() {
                        let again = match pool_threads {
                            Some(t) => in_pool(t, || catch(|| f(&cases[idx].1))),
                            None => catch(|| f(&cases[idx].1)),
                        };
                        let same = match &again {
                            Ok(o2) => {
                                let a: BTreeSet<_> =
                                    out.viols.iter().map(|v| v.finding_key.clone()).collect();
                                let b: BTreeSet<_> =
                                    o2.viols.iter().map(|v| v.finding_key.clone()).collect();
                                a == b
                            }
                            Err(_) => false,
                        };
                        if !same {
                            self.machinery_error(format!(
                                "case {key}: violation did not reproduce on re-execution \
                                 (uncontrolled nondeterminism)"
                            ));
                            out.viols.clear();
                        }
                    }
                    if self.is_replay() {
                        println!(
                            "REPLAY case={key} classes={:?} violations={}",
                            out.classes,
                            out.viols.len()
                        );
                        for v in &out.viols {
                            println!("REPLAY-VIOLATION key={} {}", v.finding_key, v.what);
                        }
                    }
                    self.absorb(group, &key, out);
                }
            }
        }
        if capped.load(Ordering::SeqCst) || first_skipped.is_some() {
            self.caps.push(format!(
                "group {group}: wall budget reached after {done} of {n} cases (cases are ordered \
                 simplest-first; all cases before index {} were completed)",
                first_skipped.unwrap_or(done)
            ));
        }
        self.groups.insert(
            group.to_string(),
            json!({"cases": n, "completed": done, "wall_s": round3(t0.elapsed().as_secs_f64())}),
        );
    }

    /// Writes evidence, replay artefacts, prints the verdict lines and exits.
    pub fn finish(mut self) -> ! {
        if self.is_replay() {
            let n = self.viols.len();
            println!("REPLAY-DONE violations={n}");
            std::process::exit(if n > 0 { 1 } else { 0 });
        }
        // --- classify violations against the committed known-findings list
        let mut unknown: Vec<(String, String, Viol)> = vec![];
        let mut known_hits: BTreeMap<String, (u64, String)> = BTreeMap::new();
        for (group, key, v) in std::mem::take(&mut self.viols) {
            if let Some(k) =
                self.known.iter().find(|k| k.property == self.prop && k.key == v.finding_key)
            {
                let e = known_hits.entry(k.key.clone()).or_insert((0, k.text.clone()));
                e.0 += 1;
            } else {
                unknown.push((group, key, v));
            }
        }
        for (k, (n, text)) in &known_hits {
            println!("KNOWN-FINDING: property={} key={} {} [{} case(s) this run]", self.prop, k, text, n);
        }
        // --- replay artefacts for new violations (one per finding key, first case wins)
        let mut reported = BTreeSet::new();
        let replay_dir = verif_root().join("replays");
        let _ = std::fs::create_dir_all(&replay_dir);
        let mut violation_lines = vec![];
        for (group, key, v) in &unknown {
            if !reported.insert(v.finding_key.clone()) {
                continue;
            }
            let h = fnv(&format!("{}|{}", key, v.finding_key));
            let path: PathBuf = replay_dir.join(format!("{}-{:016x}.json", self.prop, h));
            let body = json!({
                "property": self.prop,
                "tier": self.tier.name(),
                "seed": self.seed,
                "group": group,
                "case_key": key,
                "finding_key": v.finding_key,
                "what": v.what,
                "detail": v.detail,
                "replay_cmd": format!("/verif/check {} --replay {}", self.prop, path.display()),
            });
            let _ = std::fs::write(&path, serde_json::to_string_pretty(&body).unwrap());
            violation_lines.push(format!(
                "VIOLATION property={} replay={} key={} :: {}",
                self.prop,
                path.display(),
                v.finding_key,
                v.what
            ));
        }
        let wall = self.start.elapsed().as_secs_f64();
        // --- evidence
        let exhaustive = self.caps.is_empty();
        let mut coverage = serde_json::Map::new();
        coverage.insert("evaluations".into(), json!(self.evaluations));
        coverage.insert("distinct_nontrivial".into(), json!(self.distinct_nontrivial));
        coverage.insert("rule".into(), json!(self.rule));
        coverage.insert("samples".into(), json!(self.samples));
        coverage.insert("exhaustive".into(), json!(exhaustive));
        coverage.insert("caps_hit".into(), json!(self.caps));
        coverage.insert("outcome_classes".into(), json!(self.classes));
        coverage.insert("distinct_outcome_classes".into(), json!(self.classes.len()));
        coverage.insert("groups".into(), json!(self.groups));
        coverage.insert("counters".into(), json!(self.counters));
        coverage.insert("notes".into(), json!(self.notes));
        coverage.insert(
            "known_findings_hit".into(),
            json!(known_hits.iter().map(|(k, (n, _))| json!({"key": k, "cases": n})).collect::<Vec<_>>()),
        );
        if self.level == Level::ModelChecking {
            coverage.insert("states".into(), json!(self.states));
            coverage.insert("transitions".into(), json!(self.transitions));
            coverage.insert("traces_validated_against_impl".into(), json!(self.traces_validated));
        }
        for (k, v) in &self.extra {
            coverage.insert(k.clone(), v.clone());
        }
        let ev = json!({
            "property_id": self.prop,
            "tier": self.tier.name(),
            "seed": self.seed,
            "level": self.level.name(),
            "coverage": Value::Object(coverage),
            "assumptions": self.assumptions,
            "wall_s": round3(wall),
            "violations": unknown.len(),
            "machinery_errors": self.machinery_errors.iter().chain(self.selfcheck_failures.iter()).collect::<Vec<_>>(),
        });
        let ev_dir = verif_root().join("evidence");
        let _ = std::fs::create_dir_all(&ev_dir);
        let ev_path = ev_dir.join(format!("{}.json", self.prop));
        if let Err(e) = std::fs::write(&ev_path, serde_json::to_string_pretty(&ev).unwrap()) {
            eprintln!("MACHINERY-ERROR cannot write evidence: {e}");
            std::process::exit(2);
        }
        // <id>.json is the latest run of either tier; a per-tier copy keeps the record of the last
        // thorough run when a quick run follows it
        let _ = std::fs::create_dir_all(ev_dir.join("by-tier"));
        let _ = std::fs::write(
            ev_dir.join("by-tier").join(format!("{}.{}.json", self.prop, self.tier.name())),
            serde_json::to_string_pretty(&ev).unwrap(),
        );
        println!(
            "SUMMARY property={} tier={} evaluations={} distinct_nontrivial={} classes={} \
             exhaustive={} known_findings={} new_violations={} wall_s={:.1}",
            self.prop,
            self.tier.name(),
            self.evaluations,
            self.distinct_nontrivial,
            self.classes.len(),
            exhaustive,
            known_hits.len(),
            reported.len(),
            wall
        );
        for c in &self.caps {
            println!("CAP {c}");
        }
        if !self.machinery_errors.is_empty() {
            eprintln!("{} machinery error(s); no verdict", self.machinery_errors.len());
            std::process::exit(2);
        }
        // A violation has been re-executed and is a verdict of its own; the harness's
        // anti-vacuity self-checks (e.g. "some honest proof was accepted") commonly fail *because*
        // of it, so they only withhold the verdict when there is no violation to report.
        if !violation_lines.is_empty() {
            for l in violation_lines {
                println!("{l}");
            }
            std::process::exit(1);
        }
        if !self.selfcheck_failures.is_empty() {
            // When the wall budget cut a group short (slow or loaded machine) the run has already
            // been declared non-exhaustive, with the cut printed; an anti-vacuity count that the
            // missing cases would have supplied is then no reason to withhold "held on everything
            // explored".
            if self.caps.iter().any(|c| c.contains("wall budget reached")) {
                eprintln!("{} self-check(s) not met in a run cut short by the wall budget (see CAP lines); not a verdict on the property", self.selfcheck_failures.len());
                std::process::exit(0);
            }
            eprintln!("{} self-check failure(s); no verdict", self.selfcheck_failures.len());
            std::process::exit(2);
        }
        std::process::exit(0)
    }
}

pub fn rng_for(seed: u64, stream: &str) -> ChaCha20Rng {
    let mut s = [0u8; 32];
    s[..8].copy_from_slice(&seed.to_le_bytes());
    s[8..16].copy_from_slice(&fnv(stream).to_le_bytes());
    ChaCha20Rng::from_seed(s)
}

pub fn fnv(s: &str) -> u64 {
    let mut h: u64 = 0xcbf29ce484222325;
    for b in s.as_bytes() {
        h ^= *b as u64;
        h = h.wrapping_mul(0x100000001b3);
    }
    h
}

pub fn round3(x: f64) -> f64 {
    (x * 1000.0).round() / 1000.0
}

pub fn hex(b: &[u8]) -> String {
    let mut s = String::with_capacity(b.len() * 2);
    for x in b {
        s.push_str(&format!("{x:02x}"));
    }
    s
}

/// Builds the global rayon pool with `n` threads (call once, before any rayon use).
pub fn pin_global_rayon(n: usize) {
    let _ = rayon::ThreadPoolBuilder::new().num_threads(n).build_global();
}

/// Runs `f` inside a dedicated rayon pool of `n` threads.
pub fn in_pool<T: Send>(n: usize, f: impl FnOnce() -> T + Send) -> T {
    let pool = rayon::ThreadPoolBuilder::new().num_threads(n).build().expect("rayon pool");
    pool.install(f)
}
