//! Big-integer reference arithmetic (num-bigint): prime-field model and boundary alphabets.

use num_bigint::{BigInt, BigUint, Sign};
use num_integer::Integer;
use num_traits::{One, Zero};
use rand_core::RngCore;

pub fn bu(x: u64) -> BigUint {
    BigUint::from(x)
}

pub fn pow2(k: u32) -> BigUint {
    BigUint::one() << k
}

pub fn from_le(b: &[u8]) -> BigUint {
    BigUint::from_bytes_le(b)
}

pub fn from_be(b: &[u8]) -> BigUint {
    BigUint::from_bytes_be(b)
}

pub fn to_le(x: &BigUint, len: usize) -> Vec<u8> {
    let mut v = x.to_bytes_le();
    assert!(v.len() <= len || v[len..].iter().all(|b| *b == 0), "value does not fit");
    v.resize(len, 0);
    v
}

pub fn to_be(x: &BigUint, len: usize) -> Vec<u8> {
    let mut v = to_le(x, len);
    v.reverse();
    v
}

pub fn hexs(x: &BigUint) -> String {
    format!("0x{}", x.to_str_radix(16))
}

pub fn parse_hex(s: &str) -> BigUint {
    BigUint::parse_bytes(s.trim_start_matches("0x").as_bytes(), 16).expect("hex")
}

pub fn random_below(rng: &mut impl RngCore, p: &BigUint) -> BigUint {
    let nbytes = (p.bits() as usize + 7) / 8 + 16;
    let mut b = vec![0u8; nbytes];
    rng.fill_bytes(&mut b);
    BigUint::from_bytes_le(&b) % p
}

/// Prime field model Z/p.
#[derive(Clone, Debug)]
pub struct Fp {
    pub p: BigUint,
}

impl Fp {
    pub fn new(p: BigUint) -> Self {
        Fp { p }
    }
    pub fn red(&self, x: &BigUint) -> BigUint {
        x % &self.p
    }
    pub fn add(&self, a: &BigUint, b: &BigUint) -> BigUint {
        (a + b) % &self.p
    }
    pub fn sub(&self, a: &BigUint, b: &BigUint) -> BigUint {
        ((a % &self.p) + &self.p - (b % &self.p)) % &self.p
    }
    pub fn neg(&self, a: &BigUint) -> BigUint {
        (&self.p - (a % &self.p)) % &self.p
    }
    pub fn mul(&self, a: &BigUint, b: &BigUint) -> BigUint {
        (a * b) % &self.p
    }
    pub fn sqr(&self, a: &BigUint) -> BigUint {
        (a * a) % &self.p
    }
    pub fn pow(&self, a: &BigUint, e: &BigUint) -> BigUint {
        a.modpow(e, &self.p)
    }
    /// Inverse by extended Euclid (independent of `pow`), `None` for zero.
    pub fn inv(&self, a: &BigUint) -> Option<BigUint> {
        let a = a % &self.p;
        if a.is_zero() {
            return None;
        }
        let p = BigInt::from_biguint(Sign::Plus, self.p.clone());
        let e = BigInt::from_biguint(Sign::Plus, a).extended_gcd(&p);
        debug_assert!(e.gcd.is_one());
        let mut x = e.x % &p;
        if x.sign() == Sign::Minus {
            x += &p;
        }
        Some(x.to_biguint().unwrap())
    }
    pub fn div(&self, a: &BigUint, b: &BigUint) -> Option<BigUint> {
        self.inv(b).map(|bi| self.mul(a, &bi))
    }
    /// Euler criterion: 0 for 0, 1 for non-zero squares, -1 (as p-1 → returns 2 here as "non-residue") otherwise.
    pub fn is_square(&self, a: &BigUint) -> bool {
        let a = a % &self.p;
        if a.is_zero() {
            return true;
        }
        let e = (&self.p - 1u32) >> 1;
        self.pow(&a, &e).is_one()
    }
    /// Legendre symbol in {-1, 0, 1}.
    pub fn legendre(&self, a: &BigUint) -> i32 {
        let a = a % &self.p;
        if a.is_zero() {
            0
        } else if self.is_square(&a) {
            1
        } else {
            -1
        }
    }
    /// Some square root (Tonelli–Shanks), `None` if non-residue.
    pub fn sqrt(&self, a: &BigUint) -> Option<BigUint> {
        let a = a % &self.p;
        if a.is_zero() {
            return Some(a);
        }
        if !self.is_square(&a) {
            return None;
        }
        let one = BigUint::one();
        let mut q = &self.p - &one;
        let mut s = 0u32;
        while q.is_even() {
            q >>= 1;
            s += 1;
        }
        let mut z = bu(2);
        while self.is_square(&z) {
            z += &one;
        }
        let mut m = s;
        let mut c = self.pow(&z, &q);
        let mut t = self.pow(&a, &q);
        let mut r = self.pow(&a, &((&q + &one) >> 1));
        while !t.is_one() {
            let mut i = 0u32;
            let mut tt = t.clone();
            while !tt.is_one() {
                tt = self.sqr(&tt);
                i += 1;
            }
            let b = self.pow(&c, &pow2(m - i - 1));
            m = i;
            c = self.sqr(&b);
            t = self.mul(&t, &c);
            r = self.mul(&r, &b);
        }
        Some(r)
    }

    /// Boundary-class alphabet of the field, with names. `limb_bits` = 64 for the Montgomery
    /// limb boundaries; `n_seeded` pseudo-random representatives come from `rng`.
    pub fn alphabet(&self, n_seeded: usize, rng: &mut impl RngCore) -> Vec<(String, BigUint)> {
        let p = &self.p;
        let bits = p.bits() as u32;
        let nlimbs = (bits + 63) / 64;
        let mut out: Vec<(String, BigUint)> = vec![];
        let mut push = |n: String, v: BigUint| {
            let v = v % p;
            if !out.iter().any(|(_, x)| *x == v) {
                out.push((n, v));
            }
        };
        push("0".into(), bu(0));
        push("1".into(), bu(1));
        push("2".into(), bu(2));
        push("p-1".into(), p - 1u32);
        push("p-2".into(), p - 2u32);
        push("(p-1)/2".into(), (p - 1u32) >> 1);
        push("(p+1)/2".into(), (p + 1u32) >> 1);
        for k in 1..nlimbs {
            let b = pow2(64 * k);
            push(format!("2^{}-1", 64 * k), &b - 1u32);
            push(format!("2^{}", 64 * k), b.clone());
            push(format!("2^{}+1", 64 * k), &b + 1u32);
        }
        let r = pow2(64 * nlimbs);
        push("R".into(), r.clone() % p);
        push("R^2".into(), (&r * &r) % p);
        push("R^3".into(), (&r * &r * &r) % p);
        for k in 0..nlimbs {
            push(format!("limb{k}-ones"), (pow2(64) - 1u32) << (64 * k));
        }
        push("all-ones".into(), pow2(64 * nlimbs) - 1u32);
        push("p-2^64".into(), p - pow2(64));
        // Elements whose *Montgomery representation* (x*R mod p) is sparse: a single limb equal to 1
        // or to all-ones. Limb-wise zero tests / carries in Montgomery-form code see these as the
        // value-level limb classes above never produce them.
        let r_inv = (r.clone() % p).modpow(&(p - 2u32), p);
        for k in 0..nlimbs {
            push(format!("mont-limb{k}-one"), (pow2(64 * k) % p) * &r_inv);
            let ones = (pow2(64) - 1u32) << (64 * k);
            if &ones < p {
                push(format!("mont-limb{k}-ones"), ones * &r_inv);
            }
        }
        push(format!("2^{}-1", bits - 1), pow2(bits - 1) - 1u32);
        for i in 0..n_seeded {
            push(format!("seeded{i}"), random_below(rng, p));
        }
        out
    }
}

/// (q, r) with a = q*b + r.
pub fn div_rem(a: &BigUint, b: &BigUint) -> (BigUint, BigUint) {
    a.div_rem(b)
}
