#!/usr/bin/env python3
"""Regenerates section 10 of DESIGN.md (seeded changes x checks) from /verif/seeded/*/meta.json."""
import json, os
rows = []
for d in sorted(x for x in os.listdir('/verif/seeded') if os.path.exists(f'/verif/seeded/{x}/meta.json')):
    rows.append((d, json.load(open(f'/verif/seeded/{d}/meta.json'))))
def short(s, n=210):
    s = s.replace('|', '/').replace('\n', ' ')
    return s if len(s) <= n else s[:n - 1] + '…'
table, missed_first, missed_now = [], 0, 0
for d, m in rows:
    prop = m['property']
    det = m.get('detected_by', {}).get(prop, '')
    low = det.lower()
    if 'not detected' in low:
        first, now = 'missed', '**missed** (limit, see below)'
        missed_first += 1; missed_now += 1
    elif 'missed' in low or 'first version: no' in low:
        first = 'missed'; missed_first += 1
        i = low.find('strengthened')
        now = 'caught — ' + short(det[i:] if i >= 0 else det, 260)
    else:
        first, now = 'caught', 'caught — ' + short(det, 160)
    others = [f"{k}: {short(v, 60)}" for k, v in m.get('detected_by', {}).items() if k != prop and 'not run' not in v.lower()]
    if others:
        now += ' (also ' + '; '.join(others) + ')'
    table.append(f"| {d.split('-')[0]} | {prop} | {short(m.get('what', ''), 170)} (needs: {short(m.get('needs', 'see meta.json'), 150)}) | {first} | {now} |")
tail_phrase = "" if missed_now == 0 else f"; {missed_now} remain(s) a stated limit"
head = f"""
## 10. Seeded property-breaking changes: which check catches which

Every entry of /verif/seeded/<id>/ is a small change to /repo that breaks one property while the
repository still compiles and its existing tests still pass (`patch.diff`), a demonstration that
fails with the change and passes without it (`demo.diff`), and `meta.json` (what it needs to
manifest, what was run, which check reports it). The M-entries were written by fresh sub-agents
that saw only the property text and a scratch worktree; the S-entries are my own. Each was
confirmed in a scratch worktree with `tools/confirm_mut.sh` (demo passes without / fails with the
change, existing tests pass with it) and run against the checks with `tools/mutrun.sh`, which
builds the harness against the worktree and never touches /repo. None of them is committed to
/repo. To re-run one: `git -C /repo apply /verif/seeded/<id>/patch.diff; /verif/check <Cxx> quick;
git -C /repo checkout -- .`.

"first version" = the check as it stood before the change was tried. {missed_first} of the {len(rows)} changes were
missed by the first version of the check; {missed_first - missed_now} of those are caught after the strengthening named in
the table (each strengthening widens an alphabet, adds an operation sequence, or adds an
invariant, a model comparison or a further exploration — none special-cases the change){tail_phrase}.

| id | property | change (needs) | first version | now (quick tier) |
|---|---|---|---|---|"""
tail = open('/verif/tools/design_s10_tail.md').read()
s = open('/verif/DESIGN.md').read()
marker = "\n## 10. Seeded property-breaking changes"
if marker in s:
    s = s[:s.index(marker)]
open('/verif/DESIGN.md', 'w').write(s.rstrip('\n') + '\n' + head + '\n' + '\n'.join(table) + '\n' + tail)
print(len(rows), 'seeded;', missed_first, 'missed first;', missed_now, 'missed now')
