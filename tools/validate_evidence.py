#!/usr/bin/env python3
"""Validates an evidence file against /root/.vp/EVIDENCE.schema.json (copy kept in tools/)."""
import json, os, sys

def main():
    path = sys.argv[1]
    try:
        ev = json.load(open(path))
    except Exception as e:
        print(f"evidence: cannot read {path}: {e}", file=sys.stderr)
        return 1
    schema_path = "/root/.vp/EVIDENCE.schema.json"
    if not os.path.exists(schema_path):
        schema_path = os.path.join(os.path.dirname(__file__), "EVIDENCE.schema.json")
    schema = json.load(open(schema_path))
    try:
        import jsonschema
    except ImportError:
        # minimal structural fallback
        for k in schema["required"]:
            if k not in ev:
                print(f"evidence: missing key {k}", file=sys.stderr)
                return 1
        cov = ev["coverage"]
        if cov.get("evaluations", 0) < 1 or cov.get("distinct_nontrivial", 0) < 2 or not cov.get("samples"):
            print("evidence: coverage counts too small", file=sys.stderr)
            return 1
        return 0
    try:
        jsonschema.validate(ev, schema)
    except jsonschema.ValidationError as e:
        print(f"evidence: {path} does not validate: {e.message}", file=sys.stderr)
        return 1
    cov = ev["coverage"]
    if cov.get("evaluations", 0) < 1 or cov.get("distinct_nontrivial", 0) < 2 or not cov.get("samples"):
        print("evidence: coverage counts too small", file=sys.stderr)
        return 1
    return 0

sys.exit(main())
