#!/usr/bin/env bash
# Runs a check against a scratch worktree of the repository WITHOUT touching /repo or the real
# evidence: copies the harness to a sandbox, points its path dependencies at the worktree, builds
# into a separate target directory and redirects evidence/replays to the sandbox.
#   tools/mutrun.sh <worktree> <Cxx> [quick|thorough] [extra args]
set -u
wt="$1"; id="$2"; tier="${3:-quick}"; shift 3 || true
lc=$(echo "$id" | tr 'A-Z' 'a-z')
sb="/tmp/mutsb-$(basename "$wt")"
mkdir -p "$sb/out/evidence" "$sb/out/replays"
rsync -a --delete --exclude target /verif/harness/ "$sb/harness/"
sed -i "s|/repo/|$wt/|g" "$sb/harness/Cargo.toml"
sed -i "s|target-dir = \"/verif/target\"|target-dir = \"/tmp/mut-target\"|" "$sb/harness/.cargo/config.toml"
cp "$wt/Cargo.lock" "$sb/harness/Cargo.lock.repo" 2>/dev/null || true
(cd "$sb/harness" && cargo build --release --offline -p "vc-$lc" > "$sb/build.log" 2>&1) || { echo "BUILD FAILED (see $sb/build.log)"; tail -20 "$sb/build.log"; exit 2; }
VERIF_ROOT_OVERRIDE="$sb/out" /tmp/mut-target/release/vc-$lc --tier "$tier" "$@"
