#!/usr/bin/env bash
# Confirms a seeded change in a scratch worktree:
#   1. demo applied alone           -> demo command must PASS
#   2. demo + change applied        -> demo command must FAIL
#   3. change applied (no demo)     -> existing-test command must PASS
# usage: confirm_mut.sh <label> <worktree> <change.diff> <demo.diff> "<demo cmd>" "<existing tests cmd>"
label="$1"; wt="$2"; change="$3"; demo="$4"; democmd="$5"; existing="$6"
export CARGO_TARGET_DIR="/tmp/mt-confirm-$(basename "$wt")"
cd "$wt" || exit 2
git checkout -q -- . && git clean -fdq
git apply "$demo" || { echo "$label: demo does not apply"; exit 2; }
if bash -c "$democmd" > "/tmp/confirm-$label-1.log" 2>&1; then r1=PASS; else r1=FAIL; fi
git apply "$change" || { echo "$label: change does not apply on top of demo"; exit 2; }
if bash -c "$democmd" > "/tmp/confirm-$label-2.log" 2>&1; then r2=PASS; else r2=FAIL; fi
git checkout -q -- . && git clean -fdq
git apply "$change"
if bash -c "$existing" > "/tmp/confirm-$label-3.log" 2>&1; then r3=PASS; else r3=FAIL; fi
git checkout -q -- . && git clean -fdq
echo "$label: demo-without-change=$r1 demo-with-change=$r2 existing-tests-with-change=$r3"
grep -E "^test result" "/tmp/confirm-$label-3.log" | tr '\n' ' '; echo
