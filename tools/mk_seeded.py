#!/usr/bin/env python3
"""mk_seeded.py <label> <property> <mut_out dir> <index> <json meta extras>
Copies a confirmed sub-agent mutation into /verif/seeded/<label>/ with meta.json."""
import json, os, shutil, sys
label, prop, src, idx, extras = sys.argv[1], sys.argv[2], sys.argv[3], sys.argv[4], json.loads(sys.argv[5])
d = f"/verif/seeded/{label}"
os.makedirs(d, exist_ok=True)
shutil.copy(f"{src}/change{idx}.diff", f"{d}/patch.diff")
shutil.copy(f"{src}/demo{idx}.diff", f"{d}/demo.diff")
if os.path.exists(f"{src}/notes{idx}.md"):
    shutil.copy(f"{src}/notes{idx}.md", f"{d}/notes.md")
meta = {"property": prop, "origin": "fresh sub-agent given only the property text and a scratch worktree (no access to /verif)"}
meta.update(extras)
json.dump(meta, open(f"{d}/meta.json", "w"), indent=1)
print("wrote", d)
