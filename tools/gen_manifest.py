#!/usr/bin/env python3
"""Generates /verif/MANIFEST.json from tools/manifest_src.json (per-check texts) so that the
file stays schema-valid and complete: every property of properties.jsonl is either claimed by a
check or listed under not_applicable with a reason."""
import json, os, sys
root = os.path.dirname(os.path.dirname(os.path.abspath(__file__)))
src = json.load(open(os.path.join(root, "tools", "manifest_src.json")))
props = [json.loads(l)["id"] for l in open(os.path.join(root, "properties.jsonl"))]
checks = []
for pid in props:
    c = src["checks"].get(pid)
    if not c:
        continue
    checks.append({
        "property_id": pid,
        "quick_cmd": f"./check {pid} quick",
        "thorough_cmd": f"./check {pid} thorough",
        "evidence_file": f"/verif/evidence/{pid}.json",
        "replay_cmd_template": f"./check {pid} --replay {{path}}",
        "engine": c["engine"],
        "level_claimed": {"category": c["category"], "text": c["text"], "design_ref": c["design_ref"]},
        "level_note": c["level_note"],
        "technique": c["technique"],
    })
na = [{"property_id": p, "reason": src["not_applicable"].get(p, "check not built yet in this session (see DESIGN.md section 3 for the planned bounded-exhaustive check)")}
      for p in props if p not in src["checks"]]
m = {
    "version": 1,
    "setup_cmd": "cd /verif/harness && CARGO_NET_OFFLINE=true cargo build --release --offline " + " ".join("-p vc-" + c["property_id"].lower() for c in checks),
    "hooks": src["hooks"],
    "engines": src["engines"],
    "checks": checks,
    "notes": src["notes"],
    "not_applicable": na,
}
json.dump(m, open(os.path.join(root, "MANIFEST.json"), "w"), indent=1)
try:
    import jsonschema
    jsonschema.validate(m, json.load(open("/root/.vp/MANIFEST.schema.json")))
    print("MANIFEST.json valid;", len(checks), "checks,", len(na), "not_applicable")
except ImportError:
    print("written (jsonschema not available)")
