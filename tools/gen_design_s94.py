#!/usr/bin/env python3
"""Regenerates section 9.4 of DESIGN.md (coverage actually reached, per tier) from evidence/by-tier."""
import json, os
rows = []
for i in range(1, 21):
    cid = f"C{i:02d}"
    cells = [cid]
    for tier in ("quick", "thorough"):
        p = f"/verif/evidence/by-tier/{cid}.{tier}.json"
        if not os.path.exists(p):
            cells.append("not run yet")
            continue
        e = json.load(open(p)); c = e["coverage"]
        caps = c.get("caps_hit", [])
        extra = ""
        if e["level"] == "model_checking":
            extra = f", states {c.get('states', 0)}, transitions {c.get('transitions', 0)}, traces replayed {c.get('traces_validated_against_impl', 0)}"
        cells.append(f"{c['evaluations']} evaluations, {c['distinct_nontrivial']} distinct non-trivial, {c.get('distinct_outcome_classes', '?')} outcome classes{extra}; {e['wall_s']:.0f} s; "
                     + ("complete" if not caps else f"{len(caps)} cap(s)") + f"; known findings hit {len(c.get('known_findings_hit', []))}")
    rows.append("| " + " | ".join(cells) + " |")
text = """
### 9.4 Coverage actually reached (generated from evidence/by-tier by tools/gen_design_s94.py)

Numbers are those the checks measured on their last run of each tier on the committed tree (16
cores). "cap(s)" = the run printed CAP lines (a stride, a wall budget, a tier reduction); what
each cap is stands in the evidence file under coverage.caps_hit, and the per-group completion
counts under coverage.groups.

| id | quick | thorough |
|---|---|---|
""" + "\n".join(rows) + "\n"
s = open('/verif/DESIGN.md').read()
m = "\n### 9.4 Coverage actually reached"
nxt = "\n## 10. Seeded property-breaking changes"
if m in s:
    a = s.index(m); b = s.index(nxt)
    s = s[:a] + text + s[b:]
else:
    b = s.index(nxt)
    s = s[:b].rstrip('\n') + '\n' + text + s[b:]
open('/verif/DESIGN.md', 'w').write(s)
print("ok")
