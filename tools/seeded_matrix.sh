#!/usr/bin/env bash
# Re-runs every seeded change against the quick tier of its property's check, in a scratch
# worktree (never /repo), and prints one line per change. Usage: tools/seeded_matrix.sh [worktree]
#   SEEDED_ONLY=<regex> restricts the run to the matching ids.
#   (the worktree is created at /repo's HEAD if it does not exist, and removed at the end)
set -u
wt="${1:-/tmp/wt-matrix}"
made=0
if [ ! -d "$wt" ]; then git -C /repo worktree add --detach "$wt" HEAD -q && made=1; fi
(cd "$wt" && git checkout -q -- . && git checkout -q --detach "$(git -C /repo rev-parse HEAD)")
for d in /verif/seeded/*/; do
  id=$(basename "$d")
  [ -f "$d/meta.json" ] || continue
  if [ -n "${SEEDED_ONLY:-}" ] && ! echo "$id" | grep -Eq "$SEEDED_ONLY"; then continue; fi
  prop=$(python3 -c "import json;print(json.load(open('$d/meta.json'))['property'])")
  (cd "$wt" && git checkout -q -- . && git clean -fdq)
  if ! (cd "$wt" && git apply "$d/patch.diff" 2>/dev/null); then echo "$id $prop PATCH-DOES-NOT-APPLY"; continue; fi
  out=$(/verif/tools/mutrun.sh "$wt" "$prop" quick 2>&1)
  rc=$?
  nv=$(echo "$out" | grep -c "^VIOLATION")
  key=$(echo "$out" | grep "^VIOLATION" | head -1 | sed -E 's/.*key=([^ ]+).*/\1/')
  sum=$(echo "$out" | grep "^SUMMARY" | sed -E 's/.*(new_violations=[0-9]+ wall_s=[0-9.]+).*/\1/')
  echo "$id $prop exit=$rc violations=$nv first_key=$key $sum"
done
(cd "$wt" && git checkout -q -- . && git clean -fdq)
if [ "$made" = 1 ]; then git -C /repo worktree remove --force "$wt"; rm -rf "/tmp/mutsb-$(basename "$wt")"; fi
